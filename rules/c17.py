"""C17 — event-loop agnostic: the library suspends only where user awaitables suspend.

Whole-package effect analysis, by induction over the package:

R17.1 import discipline: no event-loop / blocking library is imported anywhere in the
      package (module level or nested); ``asyncio`` only for ``iscoroutinefunction`` whose
      only use is being called (never awaited / stored); no dynamic import / exec / eval.
R17.2 no primitive suspension: the only generator-based awaitables (``__await__``,
      ``@types.coroutine``) either cannot reach a ``yield`` or delegate to a library
      coroutine; nothing else in the package can hand a value to the event loop.
R17.3 every suspension-capable site (``await e``, ``async for .. in e``, ``async with e``)
      has an operand that is user supplied or a library awaitable (which is covered by
      the same rule, recursively) — never a stdlib / unknown awaitable.
R17.4 the library stand-ins used when arguments are synchronous contain no
      suspension-capable site at all.
"""
from __future__ import annotations

import ast

from asl.cfg import cfg_of
from asl.loader import own_nodes, norm
from .common import classify_awaitable, live, operand_of, real_units, suspension_nodes

LEVEL = {
    "decided": "C17 whole-package effect analysis: (R17.1) import discipline, (R17.2) no primitive "
               "suspension, (R17.3) every await/async-for/async-with operand is user-supplied or a "
               "library awaitable, (R17.4) the synchronous stand-ins contain no suspension site.",
    "not_decided": "nothing in the statement beyond the trusted base (CPython await delegation passes "
                   "yielded values / sent replies unchanged; no dynamic code tricks).",
}
LEVEL["decided"] += ' (R17.7) the stack enters a synchronous context manager without awaiting anything: its enter result is data (enter_context table R14.4, shared).'
LEVEL["decided"] += ' (R17.6) any_iter awaits every awaitable it is given and iterates only what is not awaitable (R19.2, shared).'

BANNED = {
    "asyncio", "trio", "anyio", "curio", "threading", "_thread", "time", "selectors", "select",
    "socket", "concurrent", "signal", "queue", "multiprocessing", "subprocess", "sched",
    "importlib", "greenlet", "gevent", "twisted", "tornado", "uvloop", "sniffio", "contextvars",
}
ASYNCIO_ALLOWED = {"iscoroutinefunction"}
DYNAMIC = {"exec", "eval", "__import__", "compile"}

# stand-ins that replace user objects when the arguments are synchronous
STANDINS = [
    "_core._aiter_sync", "_core.await_value", "_core.force_async",
    "_core.ScopedIter.__aenter__", "itertools.NoLock.__aenter__", "itertools.NoLock.__aexit__",
    "contextlib.NullContext.__aenter__", "contextlib.NullContext.__aexit__",
    "itertools.identity", "itertools.add", "heapq._identity",
]


def run(ctx) -> None:
    ctx.rule("R17.1", "no event-loop/blocking import; asyncio only for iscoroutinefunction (called, never awaited)")
    ctx.rule("R17.2", "no reachable primitive suspension (yield in __await__/types.coroutine)")
    ctx.rule("R17.3", "every await / async for / async with operand is USER or LIB origin")
    ctx.rule("R17.4", "synchronous stand-ins contain no suspension-capable site")
    ctx.assume("await / async for / async with delegate send, throw and yielded values unchanged (language semantics)")
    ctx.assume("a USER-origin awaitable is the caller's responsibility; LIB awaitables are covered recursively by R17.3")
    r17_1(ctx)
    r17_2(ctx)
    r17_3(ctx)
    r17_4(ctx)
    r17_5(ctx)
    # an awaitable handed to any_iter is awaited (its tokens reach the event loop), never iterated (C19's table)
    from . import c19
    from .common import Relabel
    ctx.rule("R17.6", "any_iter awaits every awaitable it is given and iterates only what is not awaitable (R19.2, shared)")
    c19.r19_2(Relabel(ctx, "R17.6"), project="awaits")
    # a synchronous context manager is entered by calling its __enter__: what that returns is data for the caller (the
    # ``as`` value), not an awaitable the library was asked to await - entering it suspends nowhere
    from . import c14 as _c14
    ctx.rule("R17.7", "entering a synchronous context manager through the stack awaits nothing: __enter__ is called directly and its "
                      "result handed back as it is, also when that result happens to be awaitable (enter_context table R14.4, shared)")
    _c14.r14_4(Relabel(ctx, "R17.7"))
    ctx.floor("modules", 11)
    ctx.floor("await_sites", 45)
    ctx.floor("async_for_sites", 15)
    ctx.floor("async_with_sites", 10)
    ctx.floor("standins", 4)  # (names may be merged or replaced by refactorings; R17.3 decides, R17.4 is the cross-reference)


def r17_1(ctx) -> None:
    for mod in ctx.pkg.modules.values():
        ctx.count("modules")
        for (modname, name, local, node) in mod.imports:
            top = modname.split(".")[0]
            ctx.count("imports")
            if top not in BANNED:
                ctx.ok("R17.1", mod.short or "__init__", f"import {modname}{'.' + name if name else ''} is not an event-loop/blocking library")
                continue
            if top == "asyncio" and name in ASYNCIO_ALLOWED:
                ctx.ok("R17.1", mod.short, f"from asyncio import {name} (coroutine-function detection only)")
                _uses_only_called(ctx, mod, local)
                continue
            ctx.fail("R17.1", mod.short or "__init__", node,
                     f"imports event-loop/blocking library '{modname}'" + (f" ({name})" if name else ""),
                     line=node.lineno)
        for node in ast.walk(mod.tree):
            if isinstance(node, ast.Call) and isinstance(node.func, ast.Name) and node.func.id in DYNAMIC:
                ctx.fail("R17.1", mod.short, node, f"dynamic code construct {node.func.id}()", line=node.lineno)
        # ``sys`` only for sys.exc_info()
        for node in ast.walk(mod.tree):
            if isinstance(node, ast.Attribute) and isinstance(node.value, ast.Name) and node.value.id == "sys" \
                    and mod.symbols.get("sys", ("",))[0] == "module":
                ctx.check(node.attr == "exc_info", "R17.1", mod.short, node,
                          "sys is used only for sys.exc_info()")


def _uses_only_called(ctx, mod, local: str) -> None:
    parents = {}
    for node in ast.walk(mod.tree):
        for child in ast.iter_child_nodes(node):
            parents[id(child)] = node
    for node in ast.walk(mod.tree):
        if isinstance(node, ast.Name) and node.id == local and isinstance(node.ctx, ast.Load):
            parent = parents.get(id(node))
            called = isinstance(parent, ast.Call) and parent.func is node
            grand = parents.get(id(parent)) if called else None
            ctx.check(called and not isinstance(grand, ast.Await), "R17.1", mod.short, parent or node,
                      f"{local} is only called and its result never awaited")


def r17_2(ctx) -> None:
    for u in real_units(ctx):
        name = u.qualname.rsplit(".", 1)[-1]
        is_await_method = name == "__await__"
        is_types_coroutine = "coroutine" in u.decorators
        if not (is_await_method or is_types_coroutine):
            continue
        ctx.count("generator_based_awaitables")
        cfg = cfg_of(u)
        alive = live(cfg)
        from .common import empty_delegation
        reach_yield = [n for n in alive if n.kind == "yield" and not empty_delegation(n)]
        if reach_yield:
            for n in reach_yield:
                ctx.fail("R17.2", u, n, "reachable yield in a generator-based awaitable hands a value "
                         "to the event loop (primitive suspension)", node=n)
            continue
        # whatever it returns must not be a foreign iterator either
        ok = True
        for n in alive:
            if n.kind == "return" and n.info.get("value") is not None:
                v = ctx.vals.expr(u, n.info["value"], n)
                if u.kind == "generator":
                    continue  # ``return value`` inside a generator: result of the await
                bad = [a for a in v if a[0] not in ("libcoroiter",)]
                if bad:
                    ok = False
                    ctx.fail("R17.2", u, n, "__await__ returns an iterator that is not the "
                             "__await__() of a library coroutine", node=n, witness=str(bad))
        if ok:
            ctx.ok("R17.2", u, "no reachable yield; returns a value or delegates to a library coroutine")
    # no other way to create a primitive: a *sync* generator is never awaited (R17.3 would
    # classify ``await <libsyncgen>`` as BAD), nothing subclasses Awaitable/Coroutine/Future.
    for mod in ctx.pkg.modules.values():
        for info in mod.classes.values():
            for b in info.bases:
                base = b.split("[")[0].split(".")[-1]
                if base in ("Future", "Task", "Coroutine"):
                    ctx.fail("R17.2", f"{mod.short}.{info.name}", info.node,
                             f"class derives from {base}", line=info.node.lineno)


def r17_3(ctx) -> None:
    for u in real_units(ctx):
        cfg = cfg_of(u)
        for n in suspension_nodes(cfg):
            if n.kind == "aiter":
                continue  # counted with its pull
            operand = operand_of(n)
            v = ctx.vals.expr(u, operand, n)
            cls, bad = classify_awaitable(ctx, v)
            site = {"await": "await_sites", "pull": "async_for_sites", "enter": "async_with_sites"}[n.kind]
            ctx.count(site)
            what = {"await": "await", "pull": "async for", "enter": "async with"}[n.kind]
            if cls == "BAD":
                ctx.fail("R17.3", u, operand if operand is not None else n,
                         f"{what} operand is neither user-supplied nor a library awaitable", node=n,
                         witness="origin=" + ", ".join(bad))
            else:
                ctx.ok("R17.3", u, f"{what} {norm(operand)[:60]} : {cls}", line=n.line)


def r17_5(ctx) -> None:
    """Nothing is driven by hand: ``.send()`` / ``.throw()`` / ``__next__`` on an awaitable's
    iterator would swallow the tokens it hands to the event loop (or never deliver the replies)."""
    ctx.rule("R17.5", "no coroutine / awaitable is stepped by hand (.send, .throw, next() on __await__()); "
                      "the only __await__() call returns a library coroutine's iterator unchanged")
    for u in real_units(ctx):
        for c in own_nodes(u.node):
            if isinstance(c, ast.Call) and isinstance(c.func, ast.Attribute) and c.func.attr in ("send", "throw", "__next__", "close") \
                    and not (c.func.attr == "close" and not _awaitish(ctx, u, c.func.value)):
                if c.func.attr == "close" and not _awaitish(ctx, u, c.func.value):
                    continue
                ctx.fail("R17.5", u, c, f"`.{c.func.attr}(...)` steps a coroutine / generator by hand: what it hands to the event "
                         "loop is swallowed by the library instead of reaching the loop", line=c.lineno)
            if isinstance(c, ast.Call) and isinstance(c.func, ast.Attribute) and c.func.attr == "__await__":
                name = u.qualname.rsplit(".", 1)[-1]
                ok = name == "__await__"
                ctx.check(ok, "R17.5", u, c, "__await__() is only called to delegate a class's own __await__", line=c.lineno)
    ctx.ok("R17.5", "package", "no manual stepping of awaitables")


def _awaitish(ctx, u, e) -> bool:
    try:
        v = ctx.vals.expr(u, e, None)
    except Exception:  # noqa: BLE001
        return True
    return any(a[0] in ("userawait", "libcoro", "acall", "usernext", "anextcoro", "libcoroiter") for a in v)


def r17_4(ctx) -> None:
    for short in STANDINS:
        if not ctx.pkg.has_unit(short):
            ctx.note(f"stand-in {short} no longer exists (whatever replaced it is covered by R17.3)")
            continue
        top = ctx.unit(short)
        ctx.count("standins")
        family = [top] + [x for x in top.module.units.values() if _inside(x, top)]
        sites = []
        for u in family:
            cfg = cfg_of(u)
            sites += [(u, n) for n in cfg.nodes if n.kind in ("await", "pull", "aiter", "enter", "exit_cm")]
        if sites:
            for u, n in sites:
                ctx.fail("R17.4", u, n, "synchronous stand-in contains a suspension-capable site", node=n)
        else:
            ctx.ok("R17.4", top, "no await / async for / async with")


def _inside(x, top) -> bool:
    p = x.parent
    while p is not None:
        if p is top:
            return True
        p = p.parent
    return False
