"""C11 — lru_cache stays correct under overlapping calls and cancellation.

A coroutine runs atomically between two suspension points.  The rules decide the shape
facts from which the schedule-quantified statement follows (DESIGN.md, appendix to §4):

R11.1 single suspension: every path through a wrapper's ``__call__`` has at most one
      await, which is the call of the wrapped function; hit paths have none.
R11.3 bound: abstract evaluation of the post-await block over {key present, absent} x
      {size < max, size = max}, branches the evaluator cannot interpret taken both ways:
      the resulting size never exceeds maxsize, an absent key is stored, eviction happens
      exactly in the (absent, full) cell and removes exactly one entry.
      (This subsumes "re-check after the await": a fullness or membership decision made
      before the await is an uninterpretable branch after it and fails a cell.)
R11.4 failure / cancellation stores nothing: no cache store, eviction or counter update
      is reachable on the exceptional continuation of the await.
R11.5 statistics: every path updates exactly one of hits/misses exactly once, before the
      await (hits + misses = calls, misses = invocations at every instant).
R11.6 every path returns either the value read from the cache before any await (hit) or
      the value the wrapped function produced in this call (miss).
"""
from __future__ import annotations

import ast
from typing import List, Optional, Tuple

from asl.cfg import Node, cfg_of
from asl.flow import reachable
from asl.loader import norm
from .lru import CLASSES, LruClass, call_paths

LEVEL = {
    "decided": "C11: for the three lru_cache wrapper classes — (R11.1) one await per call, the wrapped call, none on "
               "hit paths; (R11.3) post-await block abstractly evaluated over {present, absent} x {size<max, size=max}: "
               "size never exceeds maxsize, absent keys are stored, eviction only when absent and full; (R11.4) nothing "
               "is stored or counted on the exceptional continuation of the await; (R11.5) exactly one counter update per "
               "path, before the await; (R11.6) returned value is the cached value (hit) or this call's result (miss).",
    "not_decided": "the schedule-quantified conclusion itself is a hand argument from these premises (atomicity "
                   "between suspension points); equality of returned values for equal argument patterns rests on the "
                   "key construction decided by C10.",
    "technique": "static analysis: path enumeration + finite-domain abstract evaluation of the cache update block",
}
LEVEL["decided"] += ' (R11.7) the counter discipline of cache_clear / cache_info (R10.3, shared); (R11.8) the key table (R10.1, shared).'
LEVEL["decided"] += ' R11.1 also: the wrapped call is not awaited inside a loop; (R11.9) the LRU end orientation (R10.2, shared).'

MAX = 2  # representative maxsize for the abstract cells


def run(ctx) -> None:
    ctx.rule("R11.1", "at most one await per path, the wrapped call; none on hit paths")
    ctx.rule("R11.3", "abstract size table over {present,absent}x{<max,=max}")
    ctx.rule("R11.4", "no store/evict/counter update on the exceptional continuation of the await")
    ctx.rule("R11.5", "exactly one of hits/misses incremented exactly once per path, before the await")
    ctx.rule("R11.6", "returned value is the cache read (hit) or this call's awaited result (miss)")
    ctx.assume("a coroutine runs without interleaving between two suspension points (language semantics)")
    ctx.assume("OrderedDict/dict operation summaries: d[k]=v inserts at the end, popitem() removes one entry")
    for kind in CLASSES:
        lc = LruClass(ctx, kind)
        ctx.count("wrapper_classes")
        check_call(ctx, lc)
    # "every caller receives a value produced for an equal argument pattern" and "a failed or cancelled
    # call leaves the cache fully usable (statistics included)": the key table and the counter
    # discipline of C10, shared
    from . import c10
    from .common import Relabel
    ctx.rule("R11.7", "cache_clear / cache_info / cache_parameters discipline: every counter is reset to 0, nothing else survives a clear (R10.3, shared)")
    for kind in CLASSES:
        c10.r10_3(Relabel(ctx, "R11.7"), LruClass(ctx, kind))
        c10.r10_10(Relabel(ctx, "R11.7"), LruClass(ctx, kind), "R11.7")
    ctx.rule("R11.9", "every hit refreshes the entry's recency, whatever happened while other calls were in flight (R10.2, shared)")
    c10.r10_2(Relabel(ctx, "R11.9"), LruClass(ctx, "cached"))
    ctx.rule("R11.8", "two calls share an entry only if their argument patterns are equal: key table vs functools._make_key (R10.1, shared)")
    c10.r10_1(Relabel(ctx, "R11.8"))
    ctx.floor("wrapper_classes", 3)
    ctx.floor("call_paths", 5)
    ctx.floor("cells", 6)


def path_kind(lc: LruClass, path) -> Tuple[str, Optional[Node]]:
    """('hit'|'miss'|'none', return node) by where the returned value comes from."""
    ret = None
    for n, _lab in path:
        if n.kind == "return":
            ret = n
    if ret is None:
        return "none", None
    value = ret.info.get("value")
    if isinstance(value, ast.Await):
        return ("miss", ret) if _is_wrapped_call(lc, value.value) else ("other", ret)
    if isinstance(value, ast.Name):
        last = None
        for n, _lab in path:
            if n is ret:
                break
            if n.kind == "store" and any(isinstance(t, ast.Name) and t.id == value.id
                                         for t in n.info.get("targets", [])):
                last = n
        if last is not None:
            v = last.info.get("value")
            if isinstance(v, ast.Await) and _is_wrapped_call(lc, v.value):
                return "miss", ret
            if isinstance(v, ast.Subscript) and lc.is_self_attr(v.value, lc.cache):
                return "hit", ret
            if isinstance(v, ast.Call) and isinstance(v.func, ast.Attribute) and lc.is_self_attr(v.func.value, lc.cache) \
                    and v.func.attr in ("get", "pop"):
                return "hit", ret
    return "other", ret


def _is_wrapped_call(lc: LruClass, e) -> bool:
    return isinstance(e, ast.Call) and lc.is_self_attr(e.func, "__wrapped__")


def check_call(ctx, lc: LruClass) -> None:
    u = lc.call
    cfg = cfg_of(u)
    paths = call_paths(cfg)
    if not paths:
        ctx.fail("R11.1", u, "__call__", "no normal path through __call__")
        return
    # R11.1 every await is the wrapped call
    for n in cfg.nodes:
        if n.kind == "await" and not n.tag:
            ctx.check(lc.is_wrapped_await(u, n), "R11.1", u, n,
                      "the only await in __call__ is the call of the wrapped function", node=n)
            ctx.check(not n.in_loop(), "R11.1", u, n,
                      "the wrapped function is not awaited inside a loop (one call of the cache is at most one invocation: "
                      "misses counts invocations)", node=n)
    for path in paths:
        ctx.count("call_paths")
        kind, ret = path_kind(lc, path)
        nodes = [n for n, _l in path]
        awaits = [n for n in nodes if n.kind == "await"]
        desc = " -> ".join(f"L{n.line}" for n in nodes if n.kind in ("sub", "handler", "await", "store", "return", "branch"))
        # R11.6
        if kind in ("other", "none"):
            ctx.fail("R11.6", u, ret if ret is not None else "__call__",
                     "a path returns a value that is neither read from the cache nor produced by this call of "
                     "the wrapped function", node=ret, witness=desc)
            continue
        ctx.ok("R11.6", u, f"{kind} path returns {'the cached value' if kind == 'hit' else 'this call result'}", path=desc)
        # R11.1
        want = 0 if kind == "hit" else 1
        ctx.check(len(awaits) == want, "R11.1", u, awaits[0] if awaits else (ret or "__call__"),
                  f"{kind} path has exactly {want} await(s)", node=awaits[0] if awaits else ret,
                  witness=f"{len(awaits)} awaits on path {desc}")
        # R11.5
        incs = [(n, lc.counter_inc(n)) for n in nodes if lc.counter_inc(n) is not None]
        fld = lc.hits if kind == "hit" else lc.misses
        good = len(incs) == 1 and incs[0][1] == (fld, 1)
        if lc.kind == "uncached" and kind == "hit":
            good = False
        ctx.check(good, "R11.5", u, incs[0][0] if incs else (ret or "__call__"),
                  f"{kind} path increments `{fld}` exactly once and no other counter",
                  node=incs[0][0] if incs else ret,
                  witness=f"updates on path: {[(norm(n.ast), d) for n, d in incs]}; path {desc}")
        if kind == "miss" and awaits and incs:
            pos_a = nodes.index(awaits[0])
            late = [n for n, _d in incs if nodes.index(n) > pos_a]
            ctx.check(not late, "R11.5", u, late[0] if late else awaits[0],
                      "the statistics update precedes the await (so counts are consistent at every suspension)",
                      node=late[0] if late else awaits[0])
        if kind == "miss" and awaits:
            pos_a = nodes.index(awaits[0])
            early = [n for n in nodes[:pos_a] if lc.cache_store(n) or lc.cache_evict(n) is not None]
            ctx.check(not early, "R11.4", u, early[0] if early else awaits[0],
                      "nothing is stored or evicted before the wrapped call has returned (a failed or cancelled "
                      "call leaves no partial entry)", node=early[0] if early else awaits[0])
        if kind == "hit":
            stores = [n for n in nodes if lc.cache_store(n) or lc.cache_evict(n) is not None]
            ctx.check(not stores, "R11.3", u, stores[0] if stores else ret,
                      "a hit path neither stores nor evicts", node=stores[0] if stores else ret)
    # R11.3 cells
    if lc.kind != "uncached":
        cells(ctx, lc, cfg, paths)
    else:
        # the disabled cache stores nothing at all
        bad = [n for n in cfg.nodes if n.kind == "store" and any(
            isinstance(t, ast.Subscript) for t in n.info.get("targets", []))]
        ctx.check(not bad, "R11.3", u, bad[0] if bad else "__call__", "the disabled cache stores nothing",
                  node=bad[0] if bad else None)
        ctx.count("cells")
    r11_4(ctx, lc, cfg)


def cells(ctx, lc: LruClass, cfg, paths) -> None:
    global MAX
    sizes = (1, 2, 3, 5) if getattr(ctx, "tier", "quick") == "thorough" else (2,)
    for MAX in sizes:
        _cells(ctx, lc, cfg, paths)
    MAX = 2


def _cells(ctx, lc: LruClass, cfg, paths) -> None:
    u = lc.call
    miss_paths = [p for p in paths if path_kind(lc, p)[0] == "miss"]
    bounded = lc.kind == "cached"
    for present in (False, True):
        for full in ((False, True) if bounded else (False,)):
            ctx.count("cells")
            size0 = MAX if full else MAX - 1
            if present and size0 == 0:
                continue  # infeasible: a present key needs at least one entry
            if not bounded and MAX != 2:
                continue
            cell = f"key {'present' if present else 'absent'} after the await" + \
                (f", size {'= max' if full else '< max'} (max={MAX})" if bounded else "")
            feasible = 0
            for path in miss_paths:
                nodes = [n for n, _l in path]
                idx = next((i for i, n in enumerate(nodes) if n.kind == "await"), None)
                if idx is None:
                    continue
                size, pres = size0, present
                ok_path = True
                stored = evicted = 0
                evict_node = store_node = None
                for (n, lab) in path[idx + 1:]:
                    mt = lc.membership_test(n)
                    if mt is not None and lab in ("t", "f"):
                        outcome = pres if mt else (not pres)
                        if (lab == "t") != outcome:
                            ok_path = False
                            break
                        continue
                    ft = lc.full_test(n) if bounded else None
                    if ft is not None and lab in ("t", "f"):
                        if (lab == "t") != bool(ft(size, MAX)):
                            ok_path = False
                            break
                        continue
                    ev = lc.cache_evict(n)
                    if ev is not None:
                        evicted += 1
                        evict_node = n
                        size -= 1
                        if norm(ev.func).endswith("clear"):
                            size, pres = 0, False
                        # which end?  R10.2 checks orientation; here only the count
                    if lc.cache_store(n):
                        stored += 1
                        store_node = n
                        if not pres:
                            size += 1
                            pres = True
                if not ok_path:
                    continue
                feasible += 1
                desc = " -> ".join(f"L{n.line}:{lab or '.'}" for n, lab in path[idx:] if n.kind in ("branch", "store", "call", "return", "await"))
                if bounded:
                    ctx.check(size <= MAX, "R11.3", u, store_node or u.node,
                              f"[{cell}] the number of entries stays <= maxsize",
                              node=store_node, witness=f"size {size0} -> {size} with maxsize {MAX} on {desc}")
                if not present:
                    ctx.check(stored == 1 and pres, "R11.3", u, store_node or "post-await block",
                              f"[{cell}] the new result is stored exactly once",
                              node=store_node, witness=f"{stored} stores on {desc}")
                    if bounded:
                        want = 1 if full else 0
                        ctx.check(evicted == want, "R11.3", u, evict_node or store_node or "post-await block",
                                  f"[{cell}] exactly {want} entry is evicted",
                                  node=evict_node or store_node, witness=f"{evicted} evictions on {desc}")
                else:
                    ctx.ok("R11.3", u, f"[{cell}] size {size0} -> {size}", path=desc)
            ctx.check(feasible > 0, "R11.3", u, "post-await block", f"[{cell}] has a feasible path")


def r11_4(ctx, lc: LruClass, cfg) -> None:
    u = lc.call
    for n in cfg.nodes:
        if n.kind != "await" or n.tag:
            continue
        start = n.exc_succ()
        if start is None:
            continue

        def exc_edge(a: Node, lab: str, b: Node) -> bool:
            if b.kind in ("dispatch", "raise_exit", "reraise"):
                return True
            return b.tag == "exc" or any(k == "handler" for (k, _x) in b.regions) and a is not n

        cont = reachable([start], edge_ok=exc_edge)
        writes = [m for m in cont if lc.cache_store(m) or lc.cache_evict(m) is not None
                  or lc.counter_inc(m) is not None]
        ctx.check(not writes, "R11.4", u, writes[0] if writes else n,
                  "a failing or cancelled call stores nothing, evicts nothing and corrects no counter",
                  node=writes[0] if writes else n)
        # also: the await must not sit in a try whose handlers swallow the failure and store
        for (k, a) in n.regions:
            if k == "try_body" and a.handlers:  # type: ignore[union-attr]
                ctx.fail("R11.4", u, n, "the wrapped call is awaited inside a try block with handlers: a failed or "
                         "cancelled call can reach code that touches the cache", node=n)
