#!/venv/bin/python
"""
Mutation study: which small code changes survive the repository's own test suite, and which of
those do the static checks report?

  tools/mutate/survivors.py [--jobs 16] [--out /tmp/asl-mutation] [--limit N]

For every mutation operator below and every site in asyncstdlib/*.py one mutant is produced
(one edit each, the rest of the package untouched).  Per mutant, in a scratch copy:
  1. byte-compile and import the package            -> else: "stillborn"
  2. run the 388 tests                              -> fails: "killed by tests"
  3. run all 20 checks with --repo <copy>           -> which report a VIOLATION / exit 2
Survivors that no check reports are written to <out>/silent.jsonl for triage (many are
equivalent mutants or concern things no property talks about: messages, reprs, typing).

This is a measuring tool, not one of the registered checks.
"""
from __future__ import annotations

import argparse
import ast
import copy
import json
import os
import shutil
import subprocess
import sys
import tempfile
from concurrent.futures import ProcessPoolExecutor
from typing import Iterator, List, Tuple

VERIF = os.path.dirname(os.path.dirname(os.path.dirname(os.path.abspath(__file__))))
PY = "/venv/bin/python"
REPO = "/repo"

CMP_SWAP = {ast.Lt: ast.LtE, ast.LtE: ast.Lt, ast.Gt: ast.GtE, ast.GtE: ast.Gt, ast.Eq: ast.NotEq, ast.NotEq: ast.Eq,
            ast.Is: ast.IsNot, ast.IsNot: ast.Is, ast.In: ast.NotIn, ast.NotIn: ast.In}


def _in_function(parents, node) -> bool:
    p = parents.get(id(node))
    while p is not None:
        if isinstance(p, (ast.FunctionDef, ast.AsyncFunctionDef)):
            return not any(isinstance(d, ast.Name) and d.id == "overload" for d in p.decorator_list)
        p = parents.get(id(p))
    return False


def _is_docstring(parents, node) -> bool:
    p = parents.get(id(node))
    return isinstance(node, ast.Expr) and isinstance(node.value, ast.Constant) and isinstance(node.value.value, str)


def mutants_of(tree: ast.Module) -> Iterator[Tuple[str, int, ast.Module]]:
    """(operator, line, mutated tree) — each a deep copy with exactly one edit."""
    index = {}
    nodes = list(ast.walk(tree))
    for i, n in enumerate(nodes):
        index[id(n)] = i
    parents = {}
    for n in nodes:
        for c in ast.iter_child_nodes(n):
            parents[id(c)] = n

    def clone():
        t = copy.deepcopy(tree)
        return t, list(ast.walk(t))

    for i, n in enumerate(nodes):
        if not _in_function(parents, n):
            continue
        line = getattr(n, "lineno", 0)
        # comparison operators
        if isinstance(n, ast.Compare):
            for k, op in enumerate(n.ops):
                if type(op) in CMP_SWAP:
                    t, ns = clone()
                    ns[i].ops[k] = CMP_SWAP[type(op)]()
                    yield f"cmp:{type(op).__name__}", line, t
        # negate a condition
        if isinstance(n, (ast.If, ast.While, ast.IfExp)) and not (isinstance(n.test, ast.Constant)):
            t, ns = clone()
            ns[i].test = ast.UnaryOp(op=ast.Not(), operand=ns[i].test)
            yield "negate-test", line, t
        # and <-> or
        if isinstance(n, ast.BoolOp):
            t, ns = clone()
            ns[i].op = ast.Or() if isinstance(n.op, ast.And) else ast.And()
            yield "and-or", line, t
        # constants
        if isinstance(n, ast.Constant) and not isinstance(parents.get(id(n)), ast.Expr):
            v = n.value
            new = None
            if v is True:
                new = False
            elif v is False:
                new = True
            elif isinstance(v, int) and not isinstance(v, bool) and v in (0, 1, -1):
                new = {0: 1, 1: 0, -1: 1}[v]
            if new is not None:
                t, ns = clone()
                ns[i].value = new
                yield "const", line, t
        if isinstance(n, ast.UnaryOp) and isinstance(n.op, ast.USub) and isinstance(n.operand, ast.Constant):
            t, ns = clone()
            par = parents.get(id(n))
            # replace -c by c
            for fld, val in ast.iter_fields(ns[index[id(par)]]):
                if val is ns[i]:
                    setattr(ns[index[id(par)]], fld, ns[i].operand)
                elif isinstance(val, list) and ns[i] in val:
                    val[val.index(ns[i])] = ns[i].operand
            yield "drop-neg", line, t
        # statement deletion (expression statements, augmented assignments, del)
        if isinstance(n, (ast.Expr, ast.AugAssign, ast.Delete)) and not _is_docstring(parents, n):
            par = parents.get(id(n))
            for fld in ("body", "orelse", "finalbody"):
                blk = getattr(par, fld, None)
                if isinstance(blk, list) and n in blk:
                    t, ns = clone()
                    pblk = getattr(ns[index[id(par)]], fld)
                    k = blk.index(n)
                    pblk[k] = ast.copy_location(ast.Pass(), pblk[k])
                    yield "delete-stmt", line, t
        # swap adjacent simple statements
        if isinstance(n, (ast.FunctionDef, ast.AsyncFunctionDef, ast.If, ast.For, ast.AsyncFor, ast.While, ast.With,
                          ast.AsyncWith, ast.Try, ast.ExceptHandler)):
            for fld in ("body", "orelse", "finalbody"):
                blk = getattr(n, fld, None)
                if not isinstance(blk, list):
                    continue
                for k in range(len(blk) - 1):
                    a, b = blk[k], blk[k + 1]
                    simple = (ast.Assign, ast.AugAssign, ast.Expr, ast.AnnAssign)
                    if isinstance(a, simple) and isinstance(b, simple) and not _is_docstring(parents, a):
                        t, ns = clone()
                        pblk = getattr(ns[i], fld)
                        pblk[k], pblk[k + 1] = pblk[k + 1], pblk[k]
                        yield "swap-stmts", getattr(a, "lineno", line), t
        # break <-> continue
        if isinstance(n, (ast.Break, ast.Continue)):
            par = parents.get(id(n))
            for fld in ("body", "orelse", "finalbody"):
                blk = getattr(par, fld, None)
                if isinstance(blk, list) and n in blk:
                    t, ns = clone()
                    pblk = getattr(ns[index[id(par)]], fld)
                    k = blk.index(n)
                    pblk[k] = ast.copy_location(ast.Continue() if isinstance(n, ast.Break) else ast.Break(), pblk[k])
                    yield "break-continue", line, t
        # drop `not`
        if isinstance(n, ast.UnaryOp) and isinstance(n.op, ast.Not):
            par = parents.get(id(n))
            t, ns = clone()
            p2 = ns[index[id(par)]]
            for fld, val in ast.iter_fields(p2):
                if val is ns[i]:
                    setattr(p2, fld, ns[i].operand)
                elif isinstance(val, list) and ns[i] in val:
                    val[val.index(ns[i])] = ns[i].operand
            yield "drop-not", line, t
        # remove an else / finally block
        if isinstance(n, ast.Try) and n.finalbody:
            t, ns = clone()
            ns[i].finalbody = [ast.copy_location(ast.Pass(), n.finalbody[0])]
            yield "empty-finally", n.finalbody[0].lineno, t
        # drop an await (evaluate the awaitable but never run it) is a type error in most places; skip
        # return value -> None
        if isinstance(n, ast.Return) and n.value is not None and not (isinstance(n.value, ast.Constant) and n.value.value is None):
            t, ns = clone()
            ns[i].value = ast.Constant(value=None)
            yield "return-none", line, t


def evaluate(job) -> dict:
    fname, op, line, source = job
    tmp = tempfile.mkdtemp(prefix="asl-mut-")
    out = {"file": fname, "op": op, "line": line}
    try:
        shutil.copytree(os.path.join(REPO, "asyncstdlib"), os.path.join(tmp, "asyncstdlib"),
                        ignore=shutil.ignore_patterns("__pycache__"))
        shutil.copytree(os.path.join(REPO, "unittests"), os.path.join(tmp, "unittests"),
                        ignore=shutil.ignore_patterns("__pycache__"))
        with open(os.path.join(tmp, "asyncstdlib", fname), "w") as fh:
            fh.write(source)
        r = subprocess.run([PY, "-c", "import asyncstdlib"], cwd=tmp, capture_output=True, text=True, timeout=60)
        if r.returncode != 0:
            out["status"] = "stillborn"
            return out
        try:
            r = subprocess.run([PY, "-m", "pytest", "-q", "-x", "-p", "no:cacheprovider", "unittests"], cwd=tmp,
                               capture_output=True, text=True, timeout=120)
            tests_ok = r.returncode == 0
        except subprocess.TimeoutExpired:
            tests_ok = False
        if not tests_ok:
            out["status"] = "killed-by-tests"
            return out
        fired, errors, first = [], [], {}
        for i in range(1, 21):
            p = f"C{i:02d}"
            r = subprocess.run([PY, os.path.join(VERIF, "check"), p, "--repo", tmp, "--evidence-dir", os.path.join(tmp, "ev")],
                               capture_output=True, text=True, timeout=300)
            if r.returncode == 1:
                fired.append(p)
                lines = [l.strip() for l in r.stdout.splitlines() if " — R" in l]
                first[p] = lines[0][:200] if lines else ""
            elif r.returncode != 0:
                errors.append(p)
        out["status"] = "survived"
        out["fired"] = fired
        out["errors"] = errors
        out["first"] = first
        return out
    finally:
        shutil.rmtree(tmp, ignore_errors=True)


def main() -> int:
    ap = argparse.ArgumentParser()
    ap.add_argument("--jobs", type=int, default=16)
    ap.add_argument("--out", default="/tmp/asl-mutation")
    ap.add_argument("--limit", type=int, default=0)
    ap.add_argument("--files", default="")
    args = ap.parse_args()
    os.makedirs(args.out, exist_ok=True)
    jobs = []
    root = os.path.join(REPO, "asyncstdlib")
    for fname in sorted(os.listdir(root)):
        if not fname.endswith(".py") or fname in ("__init__.py", "_typing.py"):
            continue
        if args.files and fname not in args.files.split(","):
            continue
        text = open(os.path.join(root, fname)).read()
        tree = ast.parse(text)
        seen = set()
        for op, line, t in mutants_of(tree):
            ast.fix_missing_locations(t)
            src = ast.unparse(t) + "\n"
            key = hash(src)
            if key in seen or ast.dump(ast.parse(src)) == ast.dump(tree):
                continue
            seen.add(key)
            jobs.append((fname, op, line, src))
    if args.limit:
        jobs = jobs[:: max(1, len(jobs) // args.limit)]
    print(f"{len(jobs)} mutants", file=sys.stderr)
    results = []
    with ProcessPoolExecutor(max_workers=args.jobs) as ex:
        for k, res in enumerate(ex.map(evaluate, jobs, chunksize=1)):
            results.append(res)
            if k % 100 == 0:
                print(f"  {k}/{len(jobs)}", file=sys.stderr)
    with open(os.path.join(args.out, "results.jsonl"), "w") as fh:
        for r_ in results:
            fh.write(json.dumps(r_) + "\n")
    survived = [r_ for r_ in results if r_["status"] == "survived"]
    silent = [r_ for r_ in survived if not r_["fired"] and not r_["errors"]]
    with open(os.path.join(args.out, "silent.jsonl"), "w") as fh:
        for r_ in silent:
            fh.write(json.dumps(r_) + "\n")
    summary = {
        "mutants": len(results),
        "stillborn": sum(r_["status"] == "stillborn" for r_ in results),
        "killed_by_tests": sum(r_["status"] == "killed-by-tests" for r_ in results),
        "survived_tests": len(survived),
        "survivors_reported_by_a_check": sum(bool(r_["fired"]) for r_ in survived),
        "survivors_exit2_only": sum(bool(r_["errors"]) and not r_["fired"] for r_ in survived),
        "survivors_silent": len(silent),
    }
    json.dump(summary, open(os.path.join(args.out, "summary.json"), "w"), indent=1)
    print(json.dumps(summary, indent=1))
    return 0


if __name__ == "__main__":
    sys.exit(main())
