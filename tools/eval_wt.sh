#!/bin/bash
# evaluate seeds produced in scratch worktrees: tools/eval_wt.sh c04 r2c10 ...
for wt in "$@"; do
  P=$(echo $wt | sed 's/^r[0-9]//' | tr a-z A-Z)
  for k in 1 2; do
    d=/tmp/wt/$wt/SEED$k
    [ -f $d/patch.diff ] || continue
    /venv/bin/python /verif/tools/eval_seed.py $d --prop $P > /tmp/wt/$wt/eval$k.json 2>/dev/null
    /venv/bin/python - <<PY
import json
d=json.load(open('/tmp/wt/$wt/eval$k.json'))
print('$wt SEED$k', 'confirmed' if d['confirmed'] else 'NOT-CONFIRMED', d.get('tests_tail'), 'demo', d['demo_clean_rc'], d['demo_patched_rc'], 'fired', d['fired'], 'err', d['analysis_errors'], 'TARGET-HIT' if d.get('caught_by_target') else 'TARGET-MISS')
for p,v in d['details'].items():
    for x in v[:2]: print('     ',p,x[:230])
PY
  done
done
