#!/usr/bin/env python3
"""Carry the stored patches (seeded/, neutral/, selftest/authored/) over a ``fix:`` commit in /repo.

usage: rebase_patches.py <old-tree> <new-tree>     (each the directory that holds ``asyncstdlib/``)

A stored patch that no longer applies to <new-tree> is applied to <old-tree>; every file it changed is merged
three-way (git merge-file: base = old, ours = new, theirs = old + patch) and the patch is rewritten as the
difference new -> merged. Conflicts are reported and the patch is left alone (to be redone by hand).
"""
import glob
import os
import shutil
import subprocess
import sys
import tempfile

VERIF = os.path.dirname(os.path.dirname(os.path.abspath(__file__)))


def applies(tree: str, patch: str) -> bool:
    return subprocess.run(["patch", "-p1", "-s", "--dry-run", "-i", patch], cwd=tree, capture_output=True).returncode == 0


def main(old: str, new: str) -> int:
    patches = sorted(glob.glob(os.path.join(VERIF, "seeded", "*", "patch.diff")) + glob.glob(os.path.join(VERIF, "neutral", "*", "patch.diff"))
                     + glob.glob(os.path.join(VERIF, "selftest", "authored", "*", "patch.diff")))
    redone = conflicts = 0
    for p in patches:
        if applies(new, p):
            continue
        tmp = tempfile.mkdtemp(prefix="asl-rebase-")
        try:
            theirs, merged = os.path.join(tmp, "a"), os.path.join(tmp, "b")
            for d in (theirs, merged):
                os.makedirs(d)
            shutil.copytree(os.path.join(old, "asyncstdlib"), os.path.join(theirs, "asyncstdlib"))
            shutil.copytree(os.path.join(new, "asyncstdlib"), os.path.join(merged, "asyncstdlib"))
            if subprocess.run(["patch", "-p1", "-s", "-i", p], cwd=theirs, capture_output=True).returncode != 0:
                print("NOT EVEN ON THE OLD TREE", p)
                conflicts += 1
                continue
            bad = False
            for root, _dirs, files in os.walk(os.path.join(theirs, "asyncstdlib")):
                for f in files:
                    if f.endswith((".orig", ".rej")):
                        continue
                    rel = os.path.relpath(os.path.join(root, f), theirs)
                    o, n, t = os.path.join(old, rel), os.path.join(merged, rel), os.path.join(theirs, rel)
                    if not os.path.exists(o):
                        shutil.copy(t, n)  # a file the patch adds
                        continue
                    if open(o, "rb").read() == open(t, "rb").read():
                        continue
                    r = subprocess.run(["git", "merge-file", "-q", n, o, t])
                    if r.returncode != 0:
                        bad = True
            for root, _dirs, files in os.walk(os.path.join(old, "asyncstdlib")):
                for f in files:
                    rel = os.path.relpath(os.path.join(root, f), old)
                    if not os.path.exists(os.path.join(theirs, rel)) and os.path.exists(os.path.join(merged, rel)):
                        os.remove(os.path.join(merged, rel))  # a file the patch removes
            if bad:
                print("CONFLICT", p)
                conflicts += 1
                continue
            shutil.copytree(os.path.join(new, "asyncstdlib"), os.path.join(tmp, "a2", "asyncstdlib"))
            os.rename(merged, os.path.join(tmp, "b2"))
            d = subprocess.run(["git", "diff", "--no-index", "--no-color", "a2/asyncstdlib", "b2/asyncstdlib"], cwd=tmp, capture_output=True, text=True)
            text = d.stdout.replace("a/a2/", "a/").replace("b/b2/", "b/").replace("a/b2/", "a/").replace("b/a2/", "b/")
            if not text.strip():
                print("EMPTY AFTER MERGE", p)
                conflicts += 1
                continue
            with open(p, "w") as fh:
                fh.write(text)
            if not applies(new, p):
                print("REWRITTEN PATCH DOES NOT APPLY", p)
                conflicts += 1
                continue
            redone += 1
            print("rebased", os.path.relpath(p, VERIF))
        finally:
            shutil.rmtree(tmp, ignore_errors=True)
    print(f"{redone} rebased, {conflicts} to do by hand")
    return 1 if conflicts else 0


if __name__ == "__main__":
    sys.exit(main(sys.argv[1], sys.argv[2]))
