#!/venv/bin/python
"""
Confirm a seeded breaking change and run the checks against it.

  tools/eval_seed.py <seed-dir> [--prop C02] [--orig-root /tmp/wt/c02]

<seed-dir> holds patch.diff and demo.py.  A scratch copy of /repo (asyncstdlib + unittests)
is made under $TMPDIR, and removed afterwards:
  1. demo on the clean copy           -> must exit 0
  2. apply patch; test suite          -> must pass
  3. demo on the patched copy         -> must exit non-zero
  4. every check with --repo <copy>   -> which ones report a VIOLATION
Prints a JSON summary on the last line.
"""
from __future__ import annotations

import argparse
import json
import os
import re
import shutil
import subprocess
import sys
import tempfile

VERIF = os.path.dirname(os.path.dirname(os.path.abspath(__file__)))
PY = "/venv/bin/python"


def run(cmd, cwd=None, timeout=600):
    p = subprocess.run(cmd, cwd=cwd, capture_output=True, text=True, timeout=timeout)
    return p.returncode, (p.stdout + p.stderr)


def main() -> int:
    ap = argparse.ArgumentParser()
    ap.add_argument("seed")
    ap.add_argument("--prop", default=None)
    ap.add_argument("--orig-root", default=None, help="path the demo was written against (rewritten to the scratch copy)")
    ap.add_argument("--repo", default="/repo")
    ap.add_argument("--props", default=None, help="comma separated list of checks to run (default: all)")
    args = ap.parse_args()
    seed = os.path.abspath(args.seed)
    tmp = tempfile.mkdtemp(prefix="asl-seed-")
    out = {"seed": seed}
    try:
        for sub in ("asyncstdlib", "unittests"):
            shutil.copytree(os.path.join(args.repo, sub), os.path.join(tmp, sub),
                            ignore=shutil.ignore_patterns("__pycache__"))
        for f in ("setup.cfg", "pyproject.toml"):
            if os.path.exists(os.path.join(args.repo, f)):
                shutil.copy(os.path.join(args.repo, f), tmp)
        demo_src = open(os.path.join(seed, "demo.py")).read()
        if args.orig_root:
            demo_src = demo_src.replace(args.orig_root.rstrip("/"), tmp)
        demo_src = re.sub(r"/tmp/wt/[a-z0-9]+", tmp, demo_src)
        demo = os.path.join(tmp, "demo_seed.py")
        with open(demo, "w") as fh:
            fh.write(demo_src)
        rc, o = run([PY, demo], cwd=tmp)
        out["demo_clean_rc"] = rc
        rc, o = run(["patch", "-p1", "-i", os.path.join(seed, "patch.diff")], cwd=tmp)
        out["patch_applied"] = rc == 0
        if rc != 0:
            out["patch_output"] = o[-400:]
        rc, o = run([PY, "-m", "pytest", "-q", "-p", "no:cacheprovider", "unittests"], cwd=tmp)
        out["tests_rc"] = rc
        out["tests_tail"] = o.strip().splitlines()[-1] if o.strip() else ""
        rc, o = run([PY, demo], cwd=tmp)
        out["demo_patched_rc"] = rc
        out["demo_patched_tail"] = " | ".join(o.strip().splitlines()[-3:])[:400]
        fired, errors, details = [], [], {}
        props = args.props.split(",") if args.props else [f"C{i:02d}" for i in range(1, 21)]
        from concurrent.futures import ThreadPoolExecutor

        def _one(prop):
            return (prop,) + run([PY, os.path.join(VERIF, "check"), prop, "--repo", tmp, "--evidence-dir", os.path.join(tmp, "ev")])
        with ThreadPoolExecutor(10) as ex:
            results = list(ex.map(_one, props))
        for prop, rc, o in results:
            if rc == 1:
                fired.append(prop)
                details[prop] = [l.strip()[:260] for l in o.splitlines() if " — R" in l][:4]
            elif rc != 0:
                errors.append(prop)
                details[prop] = [l.strip()[:260] for l in o.splitlines() if "ANALYSIS-ERROR" in l][:2]
        out["fired"] = fired
        out["analysis_errors"] = errors
        out["details"] = details
        out["confirmed"] = (out["demo_clean_rc"] == 0 and out["patch_applied"] and out["tests_rc"] == 0
                            and out["demo_patched_rc"] != 0)
        if args.prop:
            out["target_prop"] = args.prop
            out["caught_by_target"] = args.prop in fired
    finally:
        shutil.rmtree(tmp, ignore_errors=True)
    print(json.dumps(out, indent=1))
    return 0


if __name__ == "__main__":
    sys.exit(main())
