#!/opt/veriftools/pyvenv/bin/python
"""Validate MANIFEST.json and evidence files against the given schemas."""
import json, sys, glob, os
import jsonschema
HERE = os.path.dirname(os.path.dirname(os.path.abspath(__file__)))
ms = json.load(open('/root/.vp/MANIFEST.schema.json'))
es = json.load(open('/root/.vp/EVIDENCE.schema.json'))
m = json.load(open(os.path.join(HERE, 'MANIFEST.json')))
jsonschema.validate(m, ms)
print('MANIFEST ok:', len(m['checks']), 'checks')
bad = 0
for c in m['checks']:
    p = c['evidence_file']
    if not os.path.exists(p):
        print('missing evidence', p); bad += 1; continue
    try:
        jsonschema.validate(json.load(open(p)), es)
    except Exception as e:
        print('INVALID', p, str(e)[:300]); bad += 1
print('evidence files valid' if not bad else f'{bad} problems')
sys.exit(1 if bad else 0)
