#!/venv/bin/python
"""Archive a confirmed seeded change into /verif/seeded/<id>/ and record what was run.

  tools/archive_seed.py /tmp/wt/c04/SEED1 c04-seed1 C04

Confirmation is done twice: on a scratch copy (tools/eval_seed.py) and — as the task brief
prescribes — by `git -C /repo apply`, running the checks against /repo itself, and
`git -C /repo checkout -- .` straight afterwards.
"""
import json, os, re, shutil, subprocess, sys

VERIF = os.path.dirname(os.path.dirname(os.path.abspath(__file__)))
seed, sid, prop = sys.argv[1], sys.argv[2], sys.argv[3]
dst = os.path.join(VERIF, "seeded", sid)
os.makedirs(dst, exist_ok=True)
shutil.copy(os.path.join(seed, "patch.diff"), os.path.join(dst, "patch.diff"))
demo = open(os.path.join(seed, "demo.py")).read()
demo = re.sub(r"/tmp/wt/[a-z0-9]+", "/repo", demo)
open(os.path.join(dst, "demo.py"), "w").write(demo)
notes = open(os.path.join(seed, "notes.md")).read() if os.path.exists(os.path.join(seed, "notes.md")) else ""
open(os.path.join(dst, "notes.md"), "w").write(notes)

ev = json.loads(subprocess.run(["/venv/bin/python", os.path.join(VERIF, "tools/eval_seed.py"), seed, "--prop", prop],
                               capture_output=True, text=True).stdout)
# the /repo route
status = subprocess.run(["git", "-C", "/repo", "status", "--porcelain", "--untracked-files=no"], capture_output=True, text=True).stdout
assert not status.strip(), "/repo is not clean"
fired_repo = []
try:
    subprocess.run(["git", "-C", "/repo", "apply", os.path.join(dst, "patch.diff")], check=True)
    from concurrent.futures import ThreadPoolExecutor

    def _one(p):
        return p, subprocess.run(["/venv/bin/python", os.path.join(VERIF, "check"), p, "--evidence-dir", "/tmp/asl-seed-ev"],
                                 capture_output=True, text=True)
    with ThreadPoolExecutor(10) as ex:  # the checks only read /repo
        for p, r in ex.map(_one, [f"C{i:02d}" for i in range(1, 21)]):
            if r.returncode == 1 and f"VIOLATION property={p}" in r.stdout:
                fired_repo.append(p)
finally:
    subprocess.run(["git", "-C", "/repo", "checkout", "--", "."], check=True)
    shutil.rmtree("/tmp/asl-seed-ev", ignore_errors=True)

first_pass = None
fp = os.path.join(seed, "firstpass.json")
if os.path.exists(fp):
    try:
        d = json.load(open(fp))
        first_pass = {"note": "checks that fired when this change was first evaluated, before any rule was strengthened for it",
                      "fired": d.get("fired"), "caught_by_target": d.get("caught_by_target")}
    except Exception:
        first_pass = None


def first_para(text, head):
    m = re.search(head, text, re.I)
    return text[m.end():m.end() + 600].strip().split("\n\n")[0] if m else ""

meta = {
    "id": sid,
    "breaks_property": prop,
    "author": "independent sub-agent given only the property text and a scratch worktree",
    "summary": notes.strip().split("\n")[0][:300] if notes else "",
    "needs_to_manifest": first_para(notes, r"(what (is|it) need\w*|needed|needs)[^\n]*\n") or "see notes.md",
    "confirmed": {
        "demo_exit_on_clean_tree": ev["demo_clean_rc"],
        "existing_tests_with_patch": ev["tests_tail"],
        "demo_exit_with_patch": ev["demo_patched_rc"],
        "confirmed": ev["confirmed"],
    },
    "what_was_run": [
        f"tools/eval_seed.py {seed} --prop {prop}   (scratch copy of /repo: demo clean -> patch -> 388 tests -> demo patched -> all 20 checks with --repo)",
        f"git -C /repo apply seeded/{sid}/patch.diff; ./check C01..C20; git -C /repo checkout -- .",
    ],
    "checks_reporting_violation": {"scratch_copy": ev["fired"], "repo_apply": fired_repo},
    "analysis_errors": ev["analysis_errors"],
    "first_pass": first_pass,
    "caught_by_target_property_check": prop in fired_repo,
    "first_reports": ev["details"].get(prop, [])[:3],
}
json.dump(meta, open(os.path.join(dst, "meta.json"), "w"), indent=1)
print(sid, "target", prop, "caught" if meta["caught_by_target_property_check"] else "MISSED", "fired", fired_repo, "err", ev["analysis_errors"])
