#!/venv/bin/python
"""Regenerate MANIFEST.json from the rule modules (keeps it valid at all times)."""
from __future__ import annotations

import importlib
import json
import os
import sys

HERE = os.path.dirname(os.path.dirname(os.path.abspath(__file__)))
sys.path.insert(0, HERE)

ALL = [f"C{i:02d}" for i in range(1, 21)]

# properties without a check (yet): reason shown in MANIFEST.not_applicable
PENDING_REASON = (
    "no static rule is registered for this property in this revision of /verif; "
    "see DESIGN.md section 4 for the clauses that are planned and section 6 for the residual"
)

BASELINE = ("cd /repo && /venv/bin/python -m pytest -ra -q -p no:cacheprovider --timeout=900 "
            "--continue-on-collection-errors unittests")


def main() -> None:
    checks = []
    not_applicable = []
    served = []
    for prop in ALL:
        path = os.path.join(HERE, "rules", f"{prop.lower()}.py")
        if not os.path.exists(path):
            not_applicable.append({"property_id": prop, "reason": PENDING_REASON})
            continue
        mod = importlib.import_module(f"rules.{prop.lower()}")
        if getattr(mod, "NOT_APPLICABLE", None):
            not_applicable.append({"property_id": prop, "reason": mod.NOT_APPLICABLE})
            continue
        served.append(prop)
        level = mod.LEVEL
        checks.append({
            "property_id": prop,
            "quick_cmd": f"/venv/bin/python /verif/check {prop} --tier quick",
            "thorough_cmd": f"/venv/bin/python /verif/check {prop} --tier thorough",
            "evidence_file": f"/verif/evidence/{prop}.json",
            "replay_cmd_template": "/venv/bin/python /verif/check " + prop + " --explain {path}",
            "engine": "asl",
            "level_claimed": {
                "category": "other",
                "text": ("Static analysis of /repo's current source (never executed). DECIDED: "
                         + level["decided"] + " NOT DECIDED (residual, not claimed): "
                         + level["not_decided"]),
                "design_ref": f"DESIGN.md section 4, {prop}",
            },
            "level_note": level.get("note", "Trusted base: CPython semantics of await / async with / "
                                    "try-finally / async generators; the asl CFG builder, origin analysis "
                                    "and the frozen idiom/specification tables in /verif/rules; user code "
                                    "(sources, callables, locks) honours its protocol."),
            "technique": level.get("technique", "static analysis: custom AST/CFG dataflow rules"),
        })
    manifest = {
        "version": 1,
        "setup_cmd": "/venv/bin/python -c \"import ast, sys; sys.exit(0)\"",
        "hooks": {
            "guard": "ASYNCSTDLIB_VERIF",
            "enable": "not used: the checks only read source files under /repo/asyncstdlib; no instrumentation exists",
            "baseline_off_cmd": BASELINE,
            "source_commits": [],
            "add_only": True,
        },
        "engines": [{
            "name": "asl",
            "path": "/verif/asl",
            "serves_properties": served,
            "kind_free_text": "repository-specific static analyser on Python's ast: package symbol "
                              "resolution, per-function CFG with event nodes and exception edges, "
                              "reaching definitions, origin (user/library) analysis, finite-domain "
                              "abstract evaluation; rules in /verif/rules",
        }],
        "checks": checks,
        "notes": "All checks are static (the repository is parsed, never imported or run). Exit 2 + "
                 "ANALYSIS-ERROR means the engine could not look (vanished anchor, construct outside its "
                 "language); it never prints VIOLATION. Known findings: /verif/known_findings.json.",
        "not_applicable": not_applicable,
    }
    with open(os.path.join(HERE, "MANIFEST.json"), "w") as fh:
        json.dump(manifest, fh, indent=1)
    print(f"MANIFEST.json: {len(checks)} checks, {len(not_applicable)} not applicable")


if __name__ == "__main__":
    main()
