import re, sys, os, ast
src, dst, mode = sys.argv[1], sys.argv[2], sys.argv[3]
names=set()
for f in os.listdir(src):
    if not f.endswith('.py'): continue
    tree=ast.parse(open(os.path.join(src,f)).read())
    for n in ast.walk(tree):
        cands=[]
        if isinstance(n, ast.Attribute): cands.append(n.attr)
        if isinstance(n, (ast.FunctionDef, ast.AsyncFunctionDef, ast.ClassDef)): cands.append(n.name)
        if isinstance(n, ast.Name): cands.append(n.id)
        if isinstance(n, ast.arg): cands.append(n.arg)
        for c in cands:
            if c.startswith('_') and not (c.startswith('__') and c.endswith('__')) and len(c)>2:
                names.add(c)
# keep names that come from outside the package
keep={'_T','_typing','_core','_utility','_lrucache','__all__'}
mods={f[:-3] for f in os.listdir(src)}
names={n for n in names if n not in keep and n not in mods}
if mode=='attrs':
    pass
os.makedirs(dst, exist_ok=True)
pat=re.compile(r'(?<![A-Za-z0-9_])(' + '|'.join(sorted(map(re.escape,names), key=len, reverse=True)) + r')(?![A-Za-z0-9_])')
for f in os.listdir(src):
    if not f.endswith('.py'): continue
    s=open(os.path.join(src,f)).read()
    s=pat.sub(lambda m: m.group(1)+'_rn', s)
    open(os.path.join(dst,f),'w').write(s)
print(len(names),'names renamed')
