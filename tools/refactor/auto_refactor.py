#!/venv/bin/python
"""Mechanical behaviour-preserving rewrites of the whole package, used to test the checks for
dependence on spelling (each variant must leave all 20 checks silent and the tests passing).

  auto_refactor.py <src asyncstdlib dir> <dst dir> <mode>

modes
  invert-if     every ``if c: A else: B`` (with a non-empty else that is not an elif chain)
                becomes ``if not c: B else: A``
  ifexp-swap    every ``a if c else b`` becomes ``b if not c else a``
  rename-locals every local variable / parameter-free local of every function gets a suffix
  demorgan      ``x is not y`` -> ``not (x is y)``, ``x not in y`` -> ``not (x in y)``
"""
import ast
import os
import sys


def neg(test: ast.expr) -> ast.expr:
    if isinstance(test, ast.UnaryOp) and isinstance(test.op, ast.Not):
        return test.operand
    return ast.UnaryOp(op=ast.Not(), operand=test)


class InvertIf(ast.NodeTransformer):
    def visit_If(self, node: ast.If):
        self.generic_visit(node)
        if node.orelse and not (len(node.orelse) == 1 and isinstance(node.orelse[0], ast.If)):
            return ast.copy_location(ast.If(test=neg(node.test), body=node.orelse, orelse=node.body), node)
        return node


class IfExpSwap(ast.NodeTransformer):
    def visit_IfExp(self, node: ast.IfExp):
        self.generic_visit(node)
        return ast.copy_location(ast.IfExp(test=neg(node.test), body=node.orelse, orelse=node.body), node)


class DeMorgan(ast.NodeTransformer):
    def visit_Compare(self, node: ast.Compare):
        self.generic_visit(node)
        if len(node.ops) == 1 and isinstance(node.ops[0], (ast.IsNot, ast.NotIn)):
            op = ast.Is() if isinstance(node.ops[0], ast.IsNot) else ast.In()
            inner = ast.Compare(left=node.left, ops=[op], comparators=node.comparators)
            return ast.copy_location(ast.UnaryOp(op=ast.Not(), operand=inner), node)
        return node


class RenameLocals(ast.NodeTransformer):
    """Rename locals that are plain assignment / loop / with / except targets (not parameters,
    not names declared global/nonlocal, not names also used by nested scopes)."""

    def _rename_function(self, fn):
        params = {a.arg for a in ast.walk(fn.args) if isinstance(a, ast.arg)}
        stored, nested_used, declared = set(), set(), set()
        for n in ast.walk(fn):
            if isinstance(n, (ast.Global, ast.Nonlocal)):
                declared |= set(n.names)
        own = []
        stack = list(fn.body)
        while stack:
            n = stack.pop()
            if isinstance(n, (ast.FunctionDef, ast.AsyncFunctionDef, ast.Lambda, ast.ClassDef, ast.GeneratorExp,
                              ast.ListComp, ast.SetComp, ast.DictComp)):
                for x in ast.walk(n):
                    if isinstance(x, ast.Name):
                        nested_used.add(x.id)
                    if isinstance(x, (ast.FunctionDef, ast.AsyncFunctionDef)) and x is n:
                        stored.discard(x.name)
                if isinstance(n, (ast.FunctionDef, ast.AsyncFunctionDef, ast.ClassDef)):
                    nested_used.add(n.name)
                continue
            own.append(n)
            stack.extend(ast.iter_child_nodes(n))
        for n in own:
            if isinstance(n, ast.Name) and isinstance(n.ctx, ast.Store):
                stored.add(n.id)
            if isinstance(n, ast.ExceptHandler) and n.name:
                stored.add(n.name)
        names = {x for x in stored - params - declared - nested_used if not x.startswith("__")}
        if not names:
            return
        for n in own:
            if isinstance(n, ast.Name) and n.id in names:
                n.id = n.id + "_lv"
            if isinstance(n, ast.ExceptHandler) and n.name in names:
                n.name = n.name + "_lv"

    def visit_FunctionDef(self, node):
        self.generic_visit(node)
        self._rename_function(node)
        return node

    visit_AsyncFunctionDef = visit_FunctionDef


class DropElseAfterJump(ast.NodeTransformer):
    """``if c: ...; return/raise/continue/break  else: B``  ->  ``if c: ...jump``  followed by B"""

    def _block(self, body):
        out = []
        for st in body:
            st = self.visit(st)
            if isinstance(st, ast.If) and st.orelse and st.body and isinstance(st.body[-1], (ast.Return, ast.Raise, ast.Continue, ast.Break)) \
                    and not (len(st.orelse) == 1 and isinstance(st.orelse[0], ast.If)):
                tail = st.orelse
                st.orelse = []
                out.append(st)
                out.extend(tail)
            else:
                out.append(st)
        return out

    def generic_visit(self, node):
        for fld in ("body", "orelse", "finalbody"):
            blk = getattr(node, fld, None)
            if isinstance(blk, list) and blk and isinstance(blk[0], ast.stmt):
                setattr(node, fld, self._block(blk))
        if isinstance(node, ast.Try):
            for h in node.handlers:
                h.body = self._block(h.body)
        return node


class SplitTupleAssign(ast.NodeTransformer):
    """``a, b = x, y`` -> ``a = x`` ; ``b = y`` when no right-hand side mentions a left-hand name"""

    def _block(self, body):
        out = []
        for st in body:
            st = self.visit(st)
            if isinstance(st, ast.Assign) and len(st.targets) == 1 and isinstance(st.targets[0], ast.Tuple) \
                    and isinstance(st.value, ast.Tuple) and len(st.targets[0].elts) == len(st.value.elts) \
                    and all(isinstance(t, (ast.Name, ast.Attribute)) for t in st.targets[0].elts):
                lhs = {ast.unparse(t) for t in st.targets[0].elts}
                rhs_text = " ".join(ast.unparse(v) for v in st.value.elts)
                if not any(l in rhs_text for l in lhs) and not any(isinstance(x, (ast.Call, ast.Await)) for v in st.value.elts for x in ast.walk(v)):
                    for t, v in zip(st.targets[0].elts, st.value.elts):
                        out.append(ast.copy_location(ast.Assign(targets=[t], value=v), st))
                    continue
            out.append(st)
        return out

    generic_visit = DropElseAfterJump.generic_visit


MODES = {"invert-if": InvertIf, "ifexp-swap": IfExpSwap, "demorgan": DeMorgan, "rename-locals": RenameLocals,
         "drop-else": DropElseAfterJump, "split-tuple-assign": SplitTupleAssign}


def rename_private(src: str, dst: str) -> int:
    """Rename every private name of the package (classes, methods, slots, helpers, module
    constants; not dunders, not the module names) consistently in all files."""
    import re
    names = set()
    files = [f for f in sorted(os.listdir(src)) if f.endswith(".py")]
    for f in files:
        tree = ast.parse(open(os.path.join(src, f)).read())
        for n in ast.walk(tree):
            cands = []
            if isinstance(n, ast.Attribute):
                cands.append(n.attr)
            if isinstance(n, (ast.FunctionDef, ast.AsyncFunctionDef, ast.ClassDef)):
                cands.append(n.name)
            if isinstance(n, ast.Name):
                cands.append(n.id)
            if isinstance(n, ast.arg):
                cands.append(n.arg)
            for c in cands:
                if c.startswith("_") and not (c.startswith("__") and c.endswith("__")) and len(c) > 2:
                    names.add(c)
    mods = {f[:-3] for f in files}
    names = {n for n in names if n not in mods and n not in ("_T", "__all__")}
    os.makedirs(dst, exist_ok=True)
    if not names:
        for f in files:
            open(os.path.join(dst, f), "w").write(open(os.path.join(src, f)).read())
        return 0
    pat = re.compile(r"(?<![A-Za-z0-9_])(" + "|".join(sorted(map(re.escape, names), key=len, reverse=True)) + r")(?![A-Za-z0-9_])")
    for f in files:
        text = open(os.path.join(src, f)).read()
        open(os.path.join(dst, f), "w").write(pat.sub(lambda m: m.group(1) + "_rn", text))
    return len(names)


def transform(src: str, dst: str, mode: str) -> int:
    """Write the ``mode`` variant of the package at ``src`` to ``dst``; returns the number of
    files (or names) changed."""
    if mode == "rename-private":
        return rename_private(src, dst)
    os.makedirs(dst, exist_ok=True)
    n = 0
    for f in sorted(os.listdir(src)):
        if not f.endswith(".py"):
            continue
        text = open(os.path.join(src, f)).read()
        tree = ast.parse(text)
        new = MODES[mode]().visit(tree)
        ast.fix_missing_locations(new)
        out = ast.unparse(new)
        if ast.dump(ast.parse(out)) != ast.dump(ast.parse(text)):
            n += 1
        open(os.path.join(dst, f), "w").write(out + "\n")
    return n


ALL_MODES = ["rename-private", "rename-locals", "invert-if", "ifexp-swap", "demorgan", "drop-else", "split-tuple-assign"]


def main():
    src, dst, mode = sys.argv[1:4]
    print(mode, "changed:", transform(src, dst, mode))
    return
    os.makedirs(dst, exist_ok=True)
    n = 0
    for f in sorted(os.listdir(src)):
        if not f.endswith(".py"):
            continue
        text = open(os.path.join(src, f)).read()
        tree = ast.parse(text)
        new = MODES[mode]().visit(tree)
        ast.fix_missing_locations(new)
        out = ast.unparse(new)
        if ast.dump(ast.parse(out)) != ast.dump(ast.parse(text)):
            n += 1
        open(os.path.join(dst, f), "w").write(out + "\n")
    print(mode, "files changed:", n)


if __name__ == "__main__":
    main()
