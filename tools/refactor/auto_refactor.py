#!/venv/bin/python
"""Mechanical behaviour-preserving rewrites of the whole package, used to test the checks for
dependence on spelling (each variant must leave all 20 checks silent and the tests passing).

  auto_refactor.py <src asyncstdlib dir> <dst dir> <mode>

modes
  invert-if     every ``if c: A else: B`` (with a non-empty else that is not an elif chain)
                becomes ``if not c: B else: A``
  ifexp-swap    every ``a if c else b`` becomes ``b if not c else a``
  rename-locals every local variable / parameter-free local of every function gets a suffix
  demorgan      ``x is not y`` -> ``not (x is y)``, ``x not in y`` -> ``not (x in y)``
"""
import ast
import os
import sys


def neg(test: ast.expr) -> ast.expr:
    if isinstance(test, ast.UnaryOp) and isinstance(test.op, ast.Not):
        return test.operand
    return ast.UnaryOp(op=ast.Not(), operand=test)


class InvertIf(ast.NodeTransformer):
    def visit_If(self, node: ast.If):
        self.generic_visit(node)
        if node.orelse and not (len(node.orelse) == 1 and isinstance(node.orelse[0], ast.If)):
            return ast.copy_location(ast.If(test=neg(node.test), body=node.orelse, orelse=node.body), node)
        return node


class IfExpSwap(ast.NodeTransformer):
    def visit_IfExp(self, node: ast.IfExp):
        self.generic_visit(node)
        return ast.copy_location(ast.IfExp(test=neg(node.test), body=node.orelse, orelse=node.body), node)


class DeMorgan(ast.NodeTransformer):
    def visit_Compare(self, node: ast.Compare):
        self.generic_visit(node)
        if len(node.ops) == 1 and isinstance(node.ops[0], (ast.IsNot, ast.NotIn)):
            op = ast.Is() if isinstance(node.ops[0], ast.IsNot) else ast.In()
            inner = ast.Compare(left=node.left, ops=[op], comparators=node.comparators)
            return ast.copy_location(ast.UnaryOp(op=ast.Not(), operand=inner), node)
        return node


class RenameLocals(ast.NodeTransformer):
    """Rename locals that are plain assignment / loop / with / except targets (not parameters,
    not names declared global/nonlocal, not names also used by nested scopes)."""

    def _rename_function(self, fn):
        params = {a.arg for a in ast.walk(fn.args) if isinstance(a, ast.arg)}
        stored, nested_used, declared = set(), set(), set()
        for n in ast.walk(fn):
            if isinstance(n, (ast.Global, ast.Nonlocal)):
                declared |= set(n.names)
        own = []
        stack = list(fn.body)
        while stack:
            n = stack.pop()
            if isinstance(n, (ast.FunctionDef, ast.AsyncFunctionDef, ast.Lambda, ast.ClassDef, ast.GeneratorExp,
                              ast.ListComp, ast.SetComp, ast.DictComp)):
                for x in ast.walk(n):
                    if isinstance(x, ast.Name):
                        nested_used.add(x.id)
                    if isinstance(x, (ast.FunctionDef, ast.AsyncFunctionDef)) and x is n:
                        stored.discard(x.name)
                if isinstance(n, (ast.FunctionDef, ast.AsyncFunctionDef, ast.ClassDef)):
                    nested_used.add(n.name)
                continue
            own.append(n)
            stack.extend(ast.iter_child_nodes(n))
        for n in own:
            if isinstance(n, ast.Name) and isinstance(n.ctx, ast.Store):
                stored.add(n.id)
            if isinstance(n, ast.ExceptHandler) and n.name:
                stored.add(n.name)
        names = {x for x in stored - params - declared - nested_used if not x.startswith("__")}
        if not names:
            return
        for n in own:
            if isinstance(n, ast.Name) and n.id in names:
                n.id = n.id + "_lv"
            if isinstance(n, ast.ExceptHandler) and n.name in names:
                n.name = n.name + "_lv"

    def visit_FunctionDef(self, node):
        self.generic_visit(node)
        self._rename_function(node)
        return node

    visit_AsyncFunctionDef = visit_FunctionDef


class DropElseAfterJump(ast.NodeTransformer):
    """``if c: ...; return/raise/continue/break  else: B``  ->  ``if c: ...jump``  followed by B"""

    def _block(self, body):
        out = []
        for st in body:
            st = self.visit(st)
            if isinstance(st, ast.If) and st.orelse and st.body and isinstance(st.body[-1], (ast.Return, ast.Raise, ast.Continue, ast.Break)) \
                    and not (len(st.orelse) == 1 and isinstance(st.orelse[0], ast.If)):
                tail = st.orelse
                st.orelse = []
                out.append(st)
                out.extend(tail)
            else:
                out.append(st)
        return out

    def generic_visit(self, node):
        for fld in ("body", "orelse", "finalbody"):
            blk = getattr(node, fld, None)
            if isinstance(blk, list) and blk and isinstance(blk[0], ast.stmt):
                setattr(node, fld, self._block(blk))
        if isinstance(node, ast.Try):
            for h in node.handlers:
                h.body = self._block(h.body)
        return node


class SplitTupleAssign(ast.NodeTransformer):
    """``a, b = x, y`` -> ``a = x`` ; ``b = y`` when no right-hand side mentions a left-hand name"""

    def _block(self, body):
        out = []
        for st in body:
            st = self.visit(st)
            if isinstance(st, ast.Assign) and len(st.targets) == 1 and isinstance(st.targets[0], ast.Tuple) \
                    and isinstance(st.value, ast.Tuple) and len(st.targets[0].elts) == len(st.value.elts) \
                    and all(isinstance(t, (ast.Name, ast.Attribute)) for t in st.targets[0].elts):
                lhs = {ast.unparse(t) for t in st.targets[0].elts}
                rhs_text = " ".join(ast.unparse(v) for v in st.value.elts)
                if not any(l in rhs_text for l in lhs) and not any(isinstance(x, (ast.Call, ast.Await)) for v in st.value.elts for x in ast.walk(v)):
                    for t, v in zip(st.targets[0].elts, st.value.elts):
                        out.append(ast.copy_location(ast.Assign(targets=[t], value=v), st))
                    continue
            out.append(st)
        return out

    generic_visit = DropElseAfterJump.generic_visit


class AliasFields(ast.NodeTransformer):
    """``self.f`` read twice or more in a method -> ``f_al = self.f`` at the top of the method, the reads use the local
    (only fields that ``__init__`` binds unconditionally, that no other method re-binds, and that the method itself does
    not store, delete or augment)"""

    def visit_ClassDef(self, cls: ast.ClassDef):
        self.generic_visit(cls)
        init = next((m for m in cls.body if isinstance(m, ast.FunctionDef) and m.name == "__init__"), None)
        if init is None or not init.args.args:
            return cls
        me0 = init.args.args[0].arg
        stable = set()
        for st in init.body:  # top-level statements only: bound unconditionally
            tgts = st.targets if isinstance(st, ast.Assign) else [st.target] if isinstance(st, ast.AnnAssign) and st.value is not None else []
            for t in tgts:
                if isinstance(t, ast.Attribute) and isinstance(t.value, ast.Name) and t.value.id == me0:
                    stable.add(t.attr)
        for m in cls.body:
            if isinstance(m, (ast.FunctionDef, ast.AsyncFunctionDef)) and m.name != "__init__":
                for x in ast.walk(m):
                    if isinstance(x, ast.Attribute) and isinstance(x.ctx, (ast.Store, ast.Del)):
                        stable.discard(x.attr)
                    if isinstance(x, ast.AugAssign) and isinstance(x.target, ast.Attribute):
                        stable.discard(x.target.attr)
        for m in cls.body:
            if not isinstance(m, (ast.FunctionDef, ast.AsyncFunctionDef)) or m.name == "__init__" or not m.args.args:
                continue
            if any(isinstance(d, ast.Name) and d.id in ("staticmethod", "classmethod", "property") for d in m.decorator_list):
                continue
            me = m.args.args[0].arg
            nested = [x for x in ast.walk(m) if x is not m and isinstance(x, (ast.FunctionDef, ast.AsyncFunctionDef, ast.Lambda))]
            inner = {id(y) for n_ in nested for y in ast.walk(n_)}
            loads = {}
            for x in ast.walk(m):
                if isinstance(x, ast.Attribute) and isinstance(x.ctx, ast.Load) and isinstance(x.value, ast.Name) and x.value.id == me \
                        and x.attr in stable and id(x) not in inner:
                    loads.setdefault(x.attr, []).append(x)
            names = {x.id for x in ast.walk(m) if isinstance(x, ast.Name)} | {a.arg for a in ast.walk(m) if isinstance(a, ast.arg)}
            todo = {a: ls for a, ls in loads.items() if len(ls) >= 2 and (a.strip("_") + "_al") not in names}
            if not todo:
                continue

            class Sub(ast.NodeTransformer):
                def visit_Attribute(self, n):
                    self.generic_visit(n)
                    if isinstance(n.ctx, ast.Load) and isinstance(n.value, ast.Name) and n.value.id == me and n.attr in todo \
                            and id(n) not in inner:
                        return ast.copy_location(ast.Name(id=n.attr.strip("_") + "_al", ctx=ast.Load()), n)
                    return n

            body = [Sub().visit(st) for st in m.body]
            k = 1 if body and isinstance(body[0], ast.Expr) and isinstance(body[0].value, ast.Constant) and isinstance(body[0].value.value, str) else 0
            pre = [ast.copy_location(ast.Assign(targets=[ast.Name(id=a.strip("_") + "_al", ctx=ast.Store())],
                                                value=ast.Attribute(value=ast.Name(id=me, ctx=ast.Load()), attr=a, ctx=ast.Load())), m.body[0])
                   for a in sorted(todo)]
            m.body = body[:k] + pre + body[k:]
        return cls


class IfExpToIf(ast.NodeTransformer):
    """``x = a if c else b`` -> ``if c: x = a / else: x = b``; ``return a if c else b`` likewise"""

    def _block(self, body):
        out = []
        for st in body:
            st = self.visit(st)
            val = getattr(st, "value", None)
            if isinstance(st, ast.Assign) and isinstance(val, ast.IfExp) and len(st.targets) == 1 and isinstance(st.targets[0], ast.Name):
                mk = lambda v: ast.copy_location(ast.Assign(targets=[ast.Name(id=st.targets[0].id, ctx=ast.Store())], value=v), st)  # noqa: E731
                out.append(ast.copy_location(ast.If(test=val.test, body=[mk(val.body)], orelse=[mk(val.orelse)]), st))
            elif isinstance(st, ast.Return) and isinstance(val, ast.IfExp):
                mk = lambda v: ast.copy_location(ast.Return(value=v), st)  # noqa: E731
                out.append(ast.copy_location(ast.If(test=val.test, body=[mk(val.body)], orelse=[mk(val.orelse)]), st))
            else:
                out.append(st)
        return out

    generic_visit = DropElseAfterJump.generic_visit


class WalrusUnfold(ast.NodeTransformer):
    """``if (x := e) <op> ...:`` -> ``x = e`` ; ``if x <op> ...:`` (first operand of a statement-level ``if`` test only)"""

    def _block(self, body):
        out = []
        for st in body:
            st = self.visit(st)
            if isinstance(st, ast.If):
                t = st.test
                first = t.left if isinstance(t, ast.Compare) else t.operand if isinstance(t, ast.UnaryOp) else t
                if isinstance(first, ast.NamedExpr) and isinstance(first.target, ast.Name):
                    out.append(ast.copy_location(ast.Assign(targets=[ast.Name(id=first.target.id, ctx=ast.Store())], value=first.value), st))
                    repl = ast.copy_location(ast.Name(id=first.target.id, ctx=ast.Load()), first)
                    if isinstance(t, ast.Compare):
                        t.left = repl
                    elif isinstance(t, ast.UnaryOp):
                        t.operand = repl
                    else:
                        st.test = repl
            out.append(st)
        return out

    generic_visit = DropElseAfterJump.generic_visit


class ModuleImport(ast.NodeTransformer):
    """``from ._core import a, b as c`` -> ``from . import _core`` and ``_core.a`` / ``_core.b`` at every use"""

    def visit_Module(self, mod: ast.Module):
        mapping = {}
        stored = {x.id for x in ast.walk(mod) if isinstance(x, ast.Name) and isinstance(x.ctx, (ast.Store, ast.Del))}
        stored |= {a.arg for a in ast.walk(mod) if isinstance(a, ast.arg)}
        new_body = []
        for st in mod.body:
            if isinstance(st, ast.ImportFrom) and st.level == 1 and st.module == "_core":
                keep = []
                for al in st.names:
                    local = al.asname or al.name
                    if local in stored or al.name == "*":
                        keep.append(al)
                    else:
                        mapping[local] = al.name
                if mapping:
                    new_body.append(ast.copy_location(ast.ImportFrom(module=None, names=[ast.alias(name="_core")], level=1), st))
                if keep:
                    st.names = keep
                    new_body.append(st)
            else:
                new_body.append(st)
        if not mapping:
            return mod
        mod.body = new_body

        class Sub(ast.NodeTransformer):
            def visit_Name(self, n):
                if isinstance(n.ctx, ast.Load) and n.id in mapping:
                    return ast.copy_location(ast.Attribute(value=ast.Name(id="_core", ctx=ast.Load()), attr=mapping[n.id], ctx=ast.Load()), n)
                return n

        return Sub().visit(mod)


MODES = {"alias-fields": AliasFields, "ifexp-to-if": IfExpToIf, "walrus-unfold": WalrusUnfold, "module-import": ModuleImport,
         "invert-if": InvertIf, "ifexp-swap": IfExpSwap, "demorgan": DeMorgan, "rename-locals": RenameLocals,
         "drop-else": DropElseAfterJump, "split-tuple-assign": SplitTupleAssign}


def rename_private(src: str, dst: str) -> int:
    """Rename every private name of the package (classes, methods, slots, helpers, module
    constants; not dunders, not the module names) consistently in all files."""
    import re
    names = set()
    files = [f for f in sorted(os.listdir(src)) if f.endswith(".py")]
    for f in files:
        tree = ast.parse(open(os.path.join(src, f)).read())
        for n in ast.walk(tree):
            cands = []
            if isinstance(n, ast.Attribute):
                cands.append(n.attr)
            if isinstance(n, (ast.FunctionDef, ast.AsyncFunctionDef, ast.ClassDef)):
                cands.append(n.name)
            if isinstance(n, ast.Name):
                cands.append(n.id)
            if isinstance(n, ast.arg):
                cands.append(n.arg)
            for c in cands:
                if c.startswith("_") and not (c.startswith("__") and c.endswith("__")) and len(c) > 2:
                    names.add(c)
    mods = {f[:-3] for f in files}
    names = {n for n in names if n not in mods and n not in ("_T", "__all__")}
    os.makedirs(dst, exist_ok=True)
    if not names:
        for f in files:
            open(os.path.join(dst, f), "w").write(open(os.path.join(src, f)).read())
        return 0
    pat = re.compile(r"(?<![A-Za-z0-9_])(" + "|".join(sorted(map(re.escape, names), key=len, reverse=True)) + r")(?![A-Za-z0-9_])")
    for f in files:
        text = open(os.path.join(src, f)).read()
        open(os.path.join(dst, f), "w").write(pat.sub(lambda m: m.group(1) + "_rn", text))
    return len(names)


def transform(src: str, dst: str, mode: str) -> int:
    """Write the ``mode`` variant of the package at ``src`` to ``dst``; returns the number of
    files (or names) changed."""
    if mode == "rename-private":
        return rename_private(src, dst)
    os.makedirs(dst, exist_ok=True)
    n = 0
    for f in sorted(os.listdir(src)):
        if not f.endswith(".py"):
            continue
        text = open(os.path.join(src, f)).read()
        tree = ast.parse(text)
        new = MODES[mode]().visit(tree)
        ast.fix_missing_locations(new)
        out = ast.unparse(new)
        if ast.dump(ast.parse(out)) != ast.dump(ast.parse(text)):
            n += 1
        open(os.path.join(dst, f), "w").write(out + "\n")
    return n


ALL_MODES = ["rename-private", "rename-locals", "invert-if", "ifexp-swap", "demorgan", "drop-else", "split-tuple-assign",
             "alias-fields", "ifexp-to-if", "walrus-unfold", "module-import"]


def main():
    src, dst, mode = sys.argv[1:4]
    print(mode, "changed:", transform(src, dst, mode))
    return
    os.makedirs(dst, exist_ok=True)
    n = 0
    for f in sorted(os.listdir(src)):
        if not f.endswith(".py"):
            continue
        text = open(os.path.join(src, f)).read()
        tree = ast.parse(text)
        new = MODES[mode]().visit(tree)
        ast.fix_missing_locations(new)
        out = ast.unparse(new)
        if ast.dump(ast.parse(out)) != ast.dump(ast.parse(text)):
            n += 1
        open(os.path.join(dst, f), "w").write(out + "\n")
    print(mode, "files changed:", n)


if __name__ == "__main__":
    main()
