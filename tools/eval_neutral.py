#!/venv/bin/python
"""Run all checks against a behaviour-preserving patch: every check must stay at exit 0.

  tools/eval_neutral.py <dir-with-patch.diff> [...]
"""
import json, os, shutil, subprocess, sys, tempfile
VERIF = os.path.dirname(os.path.dirname(os.path.abspath(__file__)))
PY = "/venv/bin/python"

def run(cmd, cwd=None):
    p = subprocess.run(cmd, cwd=cwd, capture_output=True, text=True, timeout=600)
    return p.returncode, p.stdout + p.stderr

for d in sys.argv[1:]:
    tmp = tempfile.mkdtemp(prefix="asl-neutral-")
    try:
        for sub in ("asyncstdlib", "unittests"):
            shutil.copytree(os.path.join("/repo", sub), os.path.join(tmp, sub), ignore=shutil.ignore_patterns("__pycache__"))
        rc, o = run(["patch", "-p1", "-i", os.path.join(os.path.abspath(d), "patch.diff")], cwd=tmp)
        if rc != 0:
            print(d, "PATCH FAILED", o[-200:]); continue
        rc, o = run([PY, "-m", "pytest", "-q", "-p", "no:cacheprovider", "unittests"], cwd=tmp)
        tests = o.strip().splitlines()[-1]
        alarms = {}
        for i in range(1, 21):
            p = f"C{i:02d}"
            rc, o = run([PY, os.path.join(VERIF, "check"), p, "--repo", tmp, "--evidence-dir", os.path.join(tmp, "ev")])
            if rc != 0:
                alarms[p] = (rc, [l.strip()[:300] for l in o.splitlines() if " — R" in l or "ANALYSIS-ERROR" in l][:3])
        print(d, "|", tests, "|", "SILENT" if not alarms else "ALARMS " + ",".join(f"{k}(rc={v[0]})" for k, v in alarms.items()))
        for k, v in alarms.items():
            for l in v[1]:
                print("      ", k, l)
    finally:
        shutil.rmtree(tmp, ignore_errors=True)
