from asyncio import iscoroutinefunction
from functools import wraps
from typing import (
    Union,
    AsyncContextManager,
    AsyncIterator,
    TypeVar,
    AsyncGenerator,
    Iterable,
    Awaitable,
    AsyncIterable,
    Callable,
    Coroutine,
    Any,
    overload,
    Optional,
)

from ._typing import T, T1, T2, T3, T4, T5, AnyIterable
from ._core import aiter
from .contextlib import nullcontext


S = TypeVar("S")


class _BorrowedAsyncIterator(AsyncGenerator[T, S]):
    """
    Borrowed async iterator/generator, preventing to ``aclose`` the ``iterable``
    """

    # adding special methods such as `__anext__` as `__slots__` allows to set them
    # on the instance: the interpreter expects *descriptors* not methods, and
    # `__slots__` are descriptors just like methods.
    __slots__ = "__wrapped__", "__anext__", "asend", "athrow", "_wrapper"

    # Type checker does not understand `__slot__` definitions
    __anext__: Callable[[Any], Coroutine[Any, Any, T]]
    asend: Any
    athrow: Any

    def __init__(self, iterator: Union[AsyncIterator[T], AsyncGenerator[T, S]]):
        self.__wrapped__ = iterator
        # Create an actual async generator wrapper that we can close. Otherwise,
        # if we pass on the original iterator methods we cannot disable them if
        # anyone has a reference to them.
        self._wrapper: AsyncGenerator[T, None] = (item async for item in iterator)
        # Forward all async iterator/generator methods but __aiter__ and aclose:
        # An async *iterator* (e.g. `async def: yield`) must return
        # itself from __aiter__. If we do not shadow this then
        # running aiter(self).aclose closes the underlying iterator.
        self.__anext__ = self._wrapper.__anext__  # type: ignore
        if hasattr(iterator, "asend"):
            self.asend = (
                iterator.asend  # pyright: ignore[reportUnknownMemberType,reportAttributeAccessIssue]
            )
        if hasattr(iterator, "athrow"):
            self.athrow = (
                iterator.athrow  # pyright: ignore[reportUnknownMemberType,reportAttributeAccessIssue]
            )

    def __aiter__(self) -> AsyncGenerator[T, S]:
        return self

    def __repr__(self) -> str:
        return f"<asyncstdlib.borrow of {self.__wrapped__!r} at 0x{(id(self)):x}>"

    async def _aclose_wrapper(self) -> None:
        wrapper_iterator = self._wrapper
        await self.__wrapped__.aclose()  # POSITIVE EXAMPLE: leaks the close to the source
        # allow closing the intermediate wrapper
        # this prevents a resource warning if the wrapper is GC'd
        # the underlying iterator is NOT affected by this
        await wrapper_iterator.aclose()
        # disable direct asend/athrow to the underlying iterator
        if hasattr(self, "asend"):
            self.asend = wrapper_iterator.asend
        if hasattr(self, "athrow"):
            self.athrow = wrapper_iterator.athrow

    def aclose(self) -> Coroutine[Any, Any, None]:
        return self._aclose_wrapper()


class _ScopedAsyncIterator(_BorrowedAsyncIterator[T, S]):
    __slots__ = ()

    def __repr__(self) -> str:
        return f"<asyncstdlib.scoped_iter of {self.__wrapped__!r} at 0x{(id(self)):x}>"

    async def aclose(self) -> None:
        pass


class _ScopedAsyncIteratorContext(AsyncContextManager[AsyncIterator[T]]):
    """
    Context restricting the lifetime of ``iterator`` to the context scope

    This is an internal helper that relies on ``iterator`` belonging to the scope
    and having an ``aclose`` method.
    """

    __slots__ = "_borrowed_iter", "_iterator"

    def __init__(self, iterator: AsyncIterator[T]):
        self._iterator: AsyncIterator[T] = iterator
        self._borrowed_iter: Optional[_ScopedAsyncIterator[T, Any]] = None

    async def __aenter__(self) -> AsyncIterator[T]:
        if self._borrowed_iter is not None:
            raise RuntimeError("scoped_iter is not re-entrant")
        self._borrowed_iter = _ScopedAsyncIterator(self._iterator)
        return self._borrowed_iter

    async def __aexit__(self, *args: Any) -> None:
        await self._borrowed_iter._aclose_wrapper()  # type: ignore
        await self._iterator.aclose()  # type: ignore

    def __repr__(self) -> str:
        return f"<{self.__class__.__name__} of {self._iterator!r} at 0x{(id(self)):x}>"


