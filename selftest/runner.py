"""
Self-test of the checker, both ways.

Every variant is one textual edit of a scratch copy of /repo/asyncstdlib (made under
$TMPDIR, removed afterwards):

  mutant   the edit breaks a property clause -> the check must exit 1, print a VIOLATION
           line and name the expected rule (and unit, if given)
  neutral  behaviour-preserving refactor      -> the check must exit 0

A miss or a false alarm here means the *checker* is broken: exit 2, never a VIOLATION.
"""
from __future__ import annotations

import os
import shutil
import subprocess
import sys
import tempfile
from concurrent.futures import ThreadPoolExecutor
from typing import Dict, List, Optional, Tuple

HERE = os.path.dirname(os.path.abspath(__file__))
VERIF = os.path.dirname(HERE)
REPO = os.environ.get("VERIF_REPO", "/repo")


def load_variants() -> List[dict]:
    sys.path.insert(0, VERIF)
    from selftest import variants
    out = []
    for v in variants.VARIANTS:
        v = dict(v)
        v.setdefault("kind", "mutant")
        out.append(v)
    # independently seeded changes and neutral refactorings kept as patch files
    import glob
    import json
    for meta_path in sorted(glob.glob(os.path.join(VERIF, "seeded", "*", "meta.json"))):
        with open(meta_path) as fh:
            meta = json.load(fh)
        if not meta.get("caught_by_target_property_check"):
            continue  # documented miss (DESIGN.md section 9)
        out.append({"id": "seeded:" + meta["id"], "kind": "mutant", "prop": meta["breaks_property"],
                    "patch": os.path.join(os.path.dirname(meta_path), "patch.diff")})
    # authored here: a refactoring from the neutral corpus combined with a defect in the
    # refactored code (tests that the helper-aware rules do not accept a broken helper)
    for meta_path in sorted(glob.glob(os.path.join(VERIF, "selftest", "authored", "*", "meta.json"))):
        with open(meta_path) as fh:
            meta = json.load(fh)
        v = {"id": "authored:" + meta["id"], "kind": meta.get("kind", "mutant"),
             "patch": os.path.join(os.path.dirname(meta_path), "patch.diff")}
        if meta.get("kind") == "neutral":
            v["props"] = meta.get("props") or ALL_PROPS
        else:
            v["prop"] = meta["prop"]
            if meta.get("rule"):
                v["rule"] = meta["rule"]
        out.append(v)
    for meta_path in sorted(glob.glob(os.path.join(VERIF, "neutral", "*", "meta.json"))):
        with open(meta_path) as fh:
            meta = json.load(fh)
        out.append({"id": "neutral:" + meta["id"], "kind": "neutral", "props": meta.get("props") or ALL_PROPS,
                    "patch": os.path.join(os.path.dirname(meta_path), "patch.diff")})
    return out


ALL_PROPS = [f"C{i:02d}" for i in range(1, 21)]


def apply_edit(root: str, v: dict) -> Optional[str]:
    if "patch" in v:
        proc = subprocess.run(["patch", "-p1", "-s", "-i", v["patch"]], cwd=root, capture_output=True, text=True)
        if proc.returncode != 0:
            return "patch does not apply: " + (proc.stdout + proc.stderr)[-200:]
        return None
    path = os.path.join(root, "asyncstdlib", v["file"])
    with open(path) as fh:
        src = fh.read()
    edits = v.get("edits") or [(v["old"], v["new"])]
    for old, new in edits:
        if src.count(old) != 1:
            return f"anchor text occurs {src.count(old)} times in {v['file']}: {old[:60]!r}"
        src = src.replace(old, new)
    try:
        compile(src, path, "exec")
    except SyntaxError as exc:
        return f"variant does not compile: {exc}"
    with open(path, "w") as fh:
        fh.write(src)
    return None


def run_variant(v: dict) -> Tuple[dict, bool, str]:
    tmp = tempfile.mkdtemp(prefix="asl-selftest-")
    try:
        shutil.copytree(os.path.join(REPO, "asyncstdlib"), os.path.join(tmp, "asyncstdlib"))
        err = apply_edit(tmp, v)
        if err:
            if v.get("optional"):
                return v, True, "skipped (anchor not present on this tree): " + err
            return v, False, "STALE VARIANT: " + err
        props = v["props"] if "props" in v else [v["prop"]]
        msgs = []
        ok = True
        for prop in props:
            proc = subprocess.run(
                [sys.executable, os.path.join(VERIF, "check"), prop, "--repo", tmp,
                 "--evidence-dir", os.path.join(tmp, "ev"), "--tier",
                 # ASL_SELFTEST_META=1: also demand the same verdict under the behaviour-preserving
                 # rewrites of tools/refactor (for mutants only: the rewrites of a rewrite are not stacked)
                 "thorough" if os.environ.get("ASL_SELFTEST_META") == "1" and v["kind"] == "mutant" else "quick"],
                capture_output=True, text=True, timeout=900,
            )
            out = proc.stdout + proc.stderr
            if v["kind"] == "mutant":
                hit = proc.returncode == 1 and "VIOLATION property=" + prop in out
                if hit and v.get("rule") and v["rule"] not in out:
                    hit = False
                    msgs.append(f"{prop}: fired but not with rule {v['rule']}")
                if hit and v.get("unit") and v["unit"] not in out:
                    hit = False
                    msgs.append(f"{prop}: fired but did not name unit {v['unit']}")
                if "DIFFERENT VERDICT" in out:
                    hit = False
                    msgs.append(f"{prop}: verdict not invariant: " + " ".join(l.strip() for l in out.splitlines() if "DIFFERENT" in l)[:300])
                if not hit:
                    ok = False
                    msgs.append(f"{prop}: MISSED (rc={proc.returncode}) " + _tail(out))
            else:
                if proc.returncode != 0:
                    ok = False
                    msgs.append(f"{prop}: FALSE ALARM (rc={proc.returncode}) " + _tail(out))
        return v, ok, "; ".join(msgs)
    finally:
        shutil.rmtree(tmp, ignore_errors=True)


def _tail(out: str) -> str:
    lines = [l for l in out.strip().splitlines() if l.strip()]
    return " | ".join(lines[-4:])[:700]


def run_many(variants: List[dict], jobs: int) -> int:
    if not variants:
        print("selftest: no variants selected")
        return 0
    bad = 0
    with ThreadPoolExecutor(max_workers=max(1, jobs)) as pool:
        for v, ok, msg in pool.map(run_variant, variants):
            status = "ok  " if ok else "FAIL"
            if not ok:
                bad += 1
            print(f"  [{status}] {v['kind']:7s} {v['id']:40s} {msg}")
    n_mut = sum(1 for v in variants if v["kind"] == "mutant")
    print(f"selftest: {len(variants)} variants ({n_mut} mutants, {len(variants) - n_mut} neutral), {bad} failed")
    if bad:
        print("ANALYSIS-ERROR selftest expectation not met (the checker is broken, not the repository)")
        return 2
    return 0


def run_slice(prop: str, jobs: int = 16) -> int:
    """Thorough tier of one property: its mutants (each also under the behaviour-preserving
    rewrites: the verdict must not change) and every neutral variant."""
    os.environ["ASL_SELFTEST_META"] = "1"
    vs = [v for v in load_variants() if prop in (v.get("props") or [v.get("prop")])]
    return run_many(vs, jobs)


def main(args) -> int:
    vs = load_variants()
    if args.only:
        vs = [v for v in vs if args.only in (v.get("props") or [v.get("prop")]) or args.only in v["id"]]
    return run_many(vs, args.jobs)
