"""Variant corpus: one textual edit each.  See runner.py."""

VARIANTS = []


def mutant(id, prop, file, old, new, rule=None, unit=None, **kw):
    VARIANTS.append(dict(id=id, prop=prop, file=file, old=old, new=new, rule=rule, unit=unit,
                         kind="mutant", **kw))


def neutral(id, props, file, old, new, **kw):
    VARIANTS.append(dict(id=id, props=props if isinstance(props, list) else [props], file=file,
                         old=old, new=new, kind="neutral", **kw))


# --------------------------------------------------------------------------- C17
mutant("c17-sleep-in-anext", "C17", "builtins.py",
       "    try:\n        return await iterator.__anext__()\n",
       "    try:\n        import asyncio\n        await asyncio.sleep(0)\n        return await iterator.__anext__()\n",
       rule="R17.3", unit="builtins.anext")
mutant("c17-asyncio-lock-default", "C17", "itertools.py",
       "lock=lock if lock is not None else NoLock(),",
       "lock=lock if lock is not None else __import__('asyncio').Lock(),",
       rule="R17.1")
mutant("c17-import-asyncio-lock", "C17", "itertools.py",
       "from collections import deque\n",
       "from collections import deque\nfrom asyncio import Lock as _Lock\n",
       rule="R17.1")
mutant("c17-awaitablevalue-yields", "C17", "functools.py",
       "        return self.value\n        yield  # type: ignore # pragma: no cover\n",
       "        yield  # type: ignore # pragma: no cover\n        return self.value\n",
       rule="R17.2", unit="functools.AwaitableValue.__await__")
mutant("c17-nolock-awaits", "C17", "itertools.py",
       "    async def __aenter__(self) -> None:\n        pass\n\n    async def __aexit__(self, exc_type: Any, exc_val: Any, exc_tb: Any) -> None:\n        return None\n\n\nasync def tee_peer(",
       "    async def __aenter__(self) -> None:\n        await identity(None)\n\n    async def __aexit__(self, exc_type: Any, exc_val: Any, exc_tb: Any) -> None:\n        return None\n\n\nasync def tee_peer(",
       rule="R17.4", unit="itertools.NoLock.__aenter__")
mutant("c17-time-sleep", "C17", "_core.py",
       "from inspect import iscoroutinefunction\n",
       "from inspect import iscoroutinefunction\nimport time\n",
       rule="R17.1")
mutant("c17-await-stdlib-value", "C17", "asynctools.py",
       "    for awaitable in awaitables:\n        yield await awaitable\n",
       "    for awaitable in awaitables:\n        yield await wraps(awaitable)\n",
       rule="R17.3", unit="asynctools.await_each")
neutral("c17-rename-local", ["C17"], "builtins.py",
        "        async for element in item_iter:\n            if not element:\n                return False\n",
        "        async for elem in item_iter:\n            if not elem:\n                return False\n")
neutral("c17-extra-stdlib-import", ["C17"], "heapq.py",
        "import heapq as _heapq\n", "import heapq as _heapq\nimport operator as _operator\n")

# --------------------------------------------------------------------------- C04
SCOPED_ENUM_OLD = ("    count = start\n    async with ScopedIter(iterable) as item_iter:\n"
                   "        async for item in item_iter:\n            yield count, item\n            count += 1\n")
mutant("c04-enumerate-no-scope", "C04", "builtins.py", SCOPED_ENUM_OLD,
       "    count = start\n    async for item in aiter(iterable):\n        yield count, item\n        count += 1\n",
       rule="R04.1", unit="builtins.enumerate")
mutant("c04-sum-unfix", "C04", "builtins.py",
       "    async with ScopedIter(iterable) as item_iter:\n        async for item in item_iter:\n            total = total + item\n",
       "    async for item in aiter(iterable):\n        total = total + item\n",
       rule="R04.1", unit="builtins.sum")
mutant("c04-zip-finally-partial", "C04", "builtins.py",
       "    finally:\n        for iterator in aiters:\n",
       "    finally:\n        for iterator in aiters[1:]:\n",
       rule="R04.2", unit="builtins.zip")
mutant("c04-zip-no-finally", "C04", "builtins.py",
       "    try:\n        inner = _zip_inner(aiters) if not strict else _zip_inner_strict(aiters)\n        async for items in inner:\n            yield items\n    finally:\n        for iterator in aiters:\n            try:\n                aclose = iterator.aclose  # type: ignore\n            except AttributeError:\n                pass\n            else:\n                await aclose()\n",
       "    inner = _zip_inner(aiters) if not strict else _zip_inner_strict(aiters)\n    async for items in inner:\n        yield items\n",
       rule="R04.1", unit="builtins.zip")
mutant("c04-zip-close-only-if-exhausted", "C04", "builtins.py",
       "            else:\n                await aclose()\n\n\nasync def _zip_inner(",
       "            else:\n                if strict:\n                    await aclose()\n\n\nasync def _zip_inner(",
       rule="R04.1", unit="builtins.zip")
mutant("c04-merge-unfix-finally", "C04", "heapq.py",
       "        for iterator in iterators:\n            if isinstance(iterator, ACloseable):\n                await iterator.aclose()\n",
       "        for itr, _ in iter_heap:\n            if isinstance(itr.tail, ACloseable):\n                await itr.tail.aclose()\n",
       rule="R04.1", unit="heapq.merge")
mutant("c04-scopediter-skip-on-error", "C04", "_core.py",
       "        try:\n            aclose = self._iterator.aclose()  # type: ignore\n",
       "        if exc_type is not None:\n            return\n        try:\n            aclose = self._iterator.aclose()  # type: ignore\n",
       rule="R04.0", unit="_core.ScopedIter.__aexit__")
mutant("c04-scopediter-returns-true", "C04", "_core.py",
       "        else:\n            await aclose\n",
       "        else:\n            await aclose\n        return True\n",
       rule="R04.0")
mutant("c04-tee-aclose-unfix", "C04", "itertools.py",
       "        if self._buffers:\n            self._buffers.clear()\n            if isinstance(self._iterator, ACloseable):\n                await self._iterator.aclose()\n",
       "",
       rule="R04.3", unit="itertools.Tee.aclose")
mutant("c04-groupby-unfix", "C04", "itertools.py",
       "        self._current_value = self._sentinel\n        self.current_group = None\n",
       "        self._current_value = self._sentinel\n",
       rule="R04.4", unit="itertools._GroupByState.aclose")
mutant("c04-groupby-state-no-close", "C04", "itertools.py",
       "        if isinstance(self._iterator, ACloseable):\n            await self._iterator.aclose()\n\n\nclass _Grouper",
       "        return\n\n\nclass _Grouper",
       rule="R04.3")
mutant("c04-chain-aclose-skips-owned", "C04", "itertools.py",
       "        for iterable in self._owned_iterators:\n            await iterable.aclose()\n        await self._iterator.aclose()\n",
       "        await self._iterator.aclose()\n",
       rule="R04.3", unit="itertools.chain.aclose")
mutant("c04-tee-peer-always-close", "C04", "itertools.py",
       "        if not peers and isinstance(iterator, ACloseable):\n",
       "        if isinstance(iterator, ACloseable):\n",
       rule="R04.5", unit="itertools.tee_peer")
mutant("c04-tee-peer-never-close", "C04", "itertools.py",
       "        if not peers and isinstance(iterator, ACloseable):\n            await iterator.aclose()\n",
       "        pass\n",
       rule="R04.5", unit="itertools.tee_peer")
mutant("c04-tee-peer-keeps-buffer", "C04", "itertools.py",
       "            if peer_buffer is buffer:\n                peers.pop(idx)\n                break\n",
       "            if peer_buffer is buffer:\n                break\n",
       rule="R04.5", unit="itertools.tee_peer")
mutant("c04-map-unscoped", "C04", "builtins.py",
       "    async with ScopedIter(zip(*iterable)) as args_iter:\n        async for args in args_iter:\n            result = function(*args)\n            yield await result\n",
       "    async for args in zip(*iterable):\n        result = function(*args)\n        yield await result\n",
       rule="R04.1", unit="builtins.map")
mutant("c04-compress-selectors-unscoped", "C04", "itertools.py",
       "    async with ScopedIter(data) as data_iter, ScopedIter(selectors) as selectors_iter:\n        async for item, keep in zip(data_iter, selectors_iter):\n",
       "    async with ScopedIter(data) as data_iter:\n        async for item, keep in zip(data_iter, _borrow(aiter(selectors))):\n",
       rule="R04.1", unit="itertools.compress")
mutant("c04-zip-longest-no-close-loop", "C04", "itertools.py",
       "        await fill_iter.aclose()  # type: ignore\n        for iterator in async_iters:\n            if isinstance(iterator, ACloseable):\n                await iterator.aclose()\n",
       "        await fill_iter.aclose()  # type: ignore\n",
       rule="R04.1", unit="itertools.zip_longest")
mutant("c04-zip-longest-pop-live", "C04", "itertools.py",
       "                else:\n                    values.append(value)\n                    del value\n",
       "                else:\n                    values.append(value)\n                    del value\n                    if len(values) > 99:\n                        async_iters.pop()\n",
       rule="R04.2", unit="itertools.zip_longest")
mutant("c04-reduce-key-before-scope", "C04", "functools.py",
       "    async with ScopedIter(iterable) as item_iter:\n        try:\n            value = (\n                initial if initial is not __REDUCE_SENTINEL else await anext(item_iter)\n            )\n",
       "    item_iter = aiter(iterable)\n    if True:\n        try:\n            value = (\n                initial if initial is not __REDUCE_SENTINEL else await anext(item_iter)\n            )\n",
       rule="R04.1", unit="functools.reduce",
       edits=[("from ._core import ScopedIter, awaitify as _awaitify, Sentinel", "from ._core import ScopedIter, aiter, awaitify as _awaitify, Sentinel"),
              ("    async with ScopedIter(iterable) as item_iter:\n        try:\n            value = (\n                initial if initial is not __REDUCE_SENTINEL else await anext(item_iter)\n            )\n",
               "    item_iter = aiter(iterable)\n    if True:\n        try:\n            value = (\n                initial if initial is not __REDUCE_SENTINEL else await anext(item_iter)\n            )\n")])
neutral("c04-enumerate-k2-rewrite", ["C04", "C18", "C17"], "builtins.py", SCOPED_ENUM_OLD,
        "    count = start\n    item_iter = aiter(iterable)\n    try:\n        async for item in item_iter:\n            yield count, item\n            count += 1\n"
        "    finally:\n        try:\n            aclose = item_iter.aclose  # type: ignore\n        except AttributeError:\n            pass\n        else:\n            await aclose()\n")
neutral("c04-zip-isinstance-idiom", ["C04", "C18"], "builtins.py",
        "        for iterator in aiters:\n            try:\n                aclose = iterator.aclose  # type: ignore\n            except AttributeError:\n                pass\n            else:\n                await aclose()\n",
        "        for iterator in aiters:\n            if hasattr(iterator, 'aclose') and isinstance(iterator, ACloseable):\n                await iterator.aclose()  # type: ignore\n",
        edits=[("from ._typing import T, R, HK, LT, AnyIterable", "from ._typing import T, R, HK, LT, AnyIterable, ACloseable"),
               ("        for iterator in aiters:\n            try:\n                aclose = iterator.aclose  # type: ignore\n            except AttributeError:\n                pass\n            else:\n                await aclose()\n",
                "        for iterator in aiters:\n            if isinstance(iterator, ACloseable):\n                await iterator.aclose()  # type: ignore\n")])

# --------------------------------------------------------------------------- C06
mutant("c06-sorted-unfix-fastpath", "C06", "builtins.py",
       "        if key is None:\n            items: _sync_builtins.list[Any] = [item async for item in item_iter]\n",
       "        if key is None:\n            try:\n                return _sync_builtins.sorted(iterable, reverse=reverse)  # type: ignore\n            except TypeError:\n                pass\n            items: _sync_builtins.list[Any] = [item async for item in item_iter]\n",
       rule="R06.1", unit="builtins.sorted")
mutant("c06-zip-inner-catches-exception", "C06", "builtins.py",
       "            yield (*[await anext(it) for it in aiters],)\n    except StopAsyncIteration:\n        return\n",
       "            yield (*[await anext(it) for it in aiters],)\n    except Exception:\n        return\n",
       rule="R06.1", unit="builtins._zip_inner")
mutant("c06-key-inside-stop-region", "C06", "heapq.py",
       "            try:\n                head = await iterator.__anext__()\n            except StopAsyncIteration:\n                pass\n            else:\n                head_key = await key(head) if key is not None else head\n                yield cls(head, iterator, reverse, head_key, key)\n",
       "            try:\n                head = await iterator.__anext__()\n                head_key = await key(head) if key is not None else head\n            except StopAsyncIteration:\n                pass\n            else:\n                yield cls(head, iterator, reverse, head_key, key)\n",
       rule="R06.1", unit="heapq._KeyIter.from_iters")
mutant("c06-accumulate-function-in-stop-region", "C06", "itertools.py",
       "        function = _awaitify(function)\n        yield value\n        async for head in item_iter:\n            value = await function(value, head)\n            yield value\n",
       "        function = _awaitify(function)\n        yield value\n        try:\n            while True:\n                value = await function(value, await anext(item_iter))\n                yield value\n        except StopAsyncIteration:\n            return\n",
       rule="R06.1", unit="itertools.accumulate")
mutant("c06-map-wraps-error", "C06", "builtins.py",
       "            result = function(*args)\n            yield await result\n",
       "            try:\n                result = function(*args)\n                value = await result\n            except Exception as exc:\n                raise RuntimeError('map failed') from exc\n            yield value\n",
       rule="R06.1", unit="builtins.map")
mutant("c06-anext-catches-runtimeerror", "C06", "builtins.py",
       "        return await iterator.__anext__()\n    except StopAsyncIteration:\n",
       "        return await iterator.__anext__()\n    except (StopAsyncIteration, RuntimeError):\n",
       rule="R06.1", unit="builtins.anext")
mutant("c06-tee-peer-broad-handler", "C06", "itertools.py",
       "                        item = await iterator.__anext__()\n                    except StopAsyncIteration:\n                        break\n",
       "                        item = await iterator.__anext__()\n                    except BaseException:\n                        break\n",
       rule="R06.1", unit="itertools.tee_peer")
mutant("c06-nolock-suppresses", "C06", "itertools.py",
       "    async def __aexit__(self, exc_type: Any, exc_val: Any, exc_tb: Any) -> None:\n        return None\n\n\nasync def tee_peer(",
       "    async def __aexit__(self, exc_type: Any, exc_val: Any, exc_tb: Any) -> bool:\n        return exc_type is not None\n\n\nasync def tee_peer(",
       rule="R06.3", unit="itertools.NoLock.__aexit__")
mutant("c06-zip-finally-returns", "C06", "builtins.py",
       "            else:\n                await aclose()\n\n\nasync def _zip_inner(",
       "            else:\n                await aclose()\n        return\n\n\nasync def _zip_inner(",
       rule="R06.3", unit="builtins.zip")
mutant("c06-pull-head-replaces", "C06", "heapq.py",
       "        except StopAsyncIteration:\n            return False\n",
       "        except StopAsyncIteration:\n            raise LookupError('exhausted')\n",
       rule="R06.2", unit="heapq._KeyIter.pull_head")
mutant("c06-zip-longest-repull-after-failure", "C06", "itertools.py",
       "    finally:\n        await fill_iter.aclose()  # type: ignore\n        for iterator in async_iters:\n",
       "    finally:\n        await fill_iter.aclose()  # type: ignore\n        for iterator in async_iters:\n            await anext(iterator, None)\n",
       rule="R06.4", unit="itertools.zip_longest")
mutant("c06-minmax-swallow-key-error", "C06", "builtins.py",
       "            async for item in item_iter:\n                item_key = await key(item)\n",
       "            async for item in item_iter:\n                try:\n                    item_key = await key(item)\n                except ValueError:\n                    continue\n",
       rule="R06.1", unit="builtins._min_max")
neutral("c06-handler-as-name", ["C06", "C04"], "builtins.py",
        "        return await iterator.__anext__()\n    except StopAsyncIteration:\n",
        "        return await iterator.__anext__()\n    except StopAsyncIteration as _stop:\n")
neutral("c06-message-change", ["C06"], "itertools.py",
        '"accumulate() of empty sequence with no initial value"', '"accumulate(): empty iterable and no initial"')

# --------------------------------------------------------------------------- C11
CACHED_POST = ("            if key in self.__cache:\n                pass\n"
               "            # the cache is filled already\n"
               "            # push the new content to the current root and rotate the list once\n"
               "            elif len(self.__cache) >= self.__maxsize:\n")
mutant("c11-gt-for-ge", "C11", "_lrucache.py",
       "            elif len(self.__cache) >= self.__maxsize:\n",
       "            elif len(self.__cache) > self.__maxsize:\n",
       rule="R11.3", unit="_lrucache.CachedLRUAsyncCallable.__call__")
mutant("c11-stale-fullness", "C11", "_lrucache.py",
       "            self.__misses += 1\n            result = await self.__wrapped__(*args, **kwargs)\n            # function finished early for another call with the same arguments\n            # the cache has been updated already, do nothing to it\n            if key in self.__cache:\n                pass\n            # the cache is filled already\n            # push the new content to the current root and rotate the list once\n            elif len(self.__cache) >= self.__maxsize:\n",
       "            self.__misses += 1\n            full = len(self.__cache) >= self.__maxsize\n            result = await self.__wrapped__(*args, **kwargs)\n            if key in self.__cache:\n                pass\n            elif full:\n",
       rule="R11.3", unit="_lrucache.CachedLRUAsyncCallable.__call__")
mutant("c11-stale-membership", "C11", "_lrucache.py",
       "            self.__misses += 1\n            result = await self.__wrapped__(*args, **kwargs)\n            # function finished early for another call with the same arguments\n            # the cache has been updated already, do nothing to it\n            if key in self.__cache:\n                pass\n            # the cache is filled already\n            # push the new content to the current root and rotate the list once\n            elif len(self.__cache) >= self.__maxsize:\n                self.__cache.popitem(last=False)\n                self.__cache[key] = result\n",
       "            self.__misses += 1\n            room = len(self.__cache) < self.__maxsize\n            result = await self.__wrapped__(*args, **kwargs)\n            if room:\n                self.__cache[key] = result\n            elif key in self.__cache:\n                pass\n            elif len(self.__cache) >= self.__maxsize:\n                self.__cache.popitem(last=False)\n                self.__cache[key] = result\n",
       rule="R11.3", unit="_lrucache.CachedLRUAsyncCallable.__call__")
mutant("c11-placeholder-before-await", "C11", "_lrucache.py",
       "        except KeyError:\n            self.__misses += 1\n            result = await self.__wrapped__(*args, **kwargs)\n            # function finished early for another call with the same arguments\n            # the cache has been updated already, do nothing to it\n            if key not in self.__cache:\n",
       "        except KeyError:\n            self.__misses += 1\n            self.__cache[key] = None\n            result = await self.__wrapped__(*args, **kwargs)\n            if True:\n",
       rule="R11.4", unit="_lrucache.MemoizedLRUAsyncCallable.__call__")
mutant("c11-finally-stores", "C11", "_lrucache.py",
       "            self.__misses += 1\n            result = await self.__wrapped__(*args, **kwargs)\n            # function finished early for another call with the same arguments\n            # the cache has been updated already, do nothing to it\n            if key not in self.__cache:\n                self.__cache[key] = result\n            return result\n",
       "            self.__misses += 1\n            result = None\n            try:\n                result = await self.__wrapped__(*args, **kwargs)\n            finally:\n                if key not in self.__cache:\n                    self.__cache[key] = result\n            return result\n",
       rule="R11.4", unit="_lrucache.MemoizedLRUAsyncCallable.__call__")
mutant("c11-miss-counted-after-await", "C11", "_lrucache.py",
       "        except KeyError:\n            self.__misses += 1\n            result = await self.__wrapped__(*args, **kwargs)\n            # function finished early for another call with the same arguments\n            # the cache has been updated already, do nothing to it\n            if key not in self.__cache:\n",
       "        except KeyError:\n            result = await self.__wrapped__(*args, **kwargs)\n            self.__misses += 1\n            if key not in self.__cache:\n",
       rule="R11.5", unit="_lrucache.MemoizedLRUAsyncCallable.__call__")
mutant("c11-miss-uncounted-on-error", "C11", "_lrucache.py",
       "        self.__misses += 1\n        return await self.__wrapped__(*args, **kwargs)\n",
       "        try:\n            return await self.__wrapped__(*args, **kwargs)\n        except BaseException:\n            raise\n        finally:\n            self.__misses += 1\n",
       rule="R11", unit="_lrucache.UncachedLRUAsyncCallable.__call__")
mutant("c11-hit-not-counted", "C11", "_lrucache.py",
       "            self.__cache.move_to_end(key, last=True)\n            self.__hits += 1\n            return result\n",
       "            self.__cache.move_to_end(key, last=True)\n            return result\n",
       rule="R11.5", unit="_lrucache.CachedLRUAsyncCallable.__call__")
mutant("c11-retry-second-await", "C11", "_lrucache.py",
       "            self.__misses += 1\n            result = await self.__wrapped__(*args, **kwargs)\n            # function finished early for another call with the same arguments\n            # the cache has been updated already, do nothing to it\n            if key not in self.__cache:\n",
       "            self.__misses += 1\n            result = await self.__wrapped__(*args, **kwargs)\n            if result is None:\n                result = await self.__wrapped__(*args, **kwargs)\n            if key not in self.__cache:\n",
       rule="R11.1", unit="_lrucache.MemoizedLRUAsyncCallable.__call__")
mutant("c11-evict-without-store", "C11", "_lrucache.py",
       "                self.__cache.popitem(last=False)\n                self.__cache[key] = result\n",
       "                self.__cache.popitem(last=False)\n",
       rule="R11.3", unit="_lrucache.CachedLRUAsyncCallable.__call__")
mutant("c11-no-evict-when-full", "C11", "_lrucache.py",
       "                self.__cache.popitem(last=False)\n                self.__cache[key] = result\n",
       "                self.__cache[key] = result\n",
       rule="R11.3", unit="_lrucache.CachedLRUAsyncCallable.__call__")
neutral("c11-recheck-spelled-not-in", ["C11", "C10"], "_lrucache.py",
        "            if key in self.__cache:\n                pass\n            # the cache is filled already\n            # push the new content to the current root and rotate the list once\n            elif len(self.__cache) >= self.__maxsize:\n                self.__cache.popitem(last=False)\n                self.__cache[key] = result\n            # the cache still has room\n            # insert the new element at the back\n            else:\n                self.__cache[key] = result\n            return result\n",
        "            if key not in self.__cache:\n                if self.__maxsize <= len(self.__cache):\n                    self.__cache.popitem(last=False)\n                self.__cache[key] = result\n            return result\n")

# --------------------------------------------------------------------------- C10
mutant("c10-fast-types-float", "C10", "_lrucache.py",
       "fast_types: Tuple[type, ...] = (int, str),", "fast_types: Tuple[type, ...] = (int, str, float),",
       rule="R10.1", unit="_lrucache.CallKey.from_call")
mutant("c10-fast-path-isinstance", "C10", "_lrucache.py",
       "elif len(key) == 1 and type(key[0]) in fast_types:", "elif len(key) == 1 and isinstance(key[0], fast_types):",
       rule="R10.1")
mutant("c10-typed-ignores-kwargs", "C10", "_lrucache.py",
       "                else (*map(type, args), *map(type, kwds.values()))\n", "                else (*map(type, args),)\n",
       rule="R10.1")
mutant("c10-marker-is-none", "C10", "_lrucache.py",
       "key = args if not kwds else (*args, kwarg_sentinel, *kwds.items())",
       "key = args if not kwds else (*args, None, *kwds.items())", rule="R10.1")
mutant("c10-no-marker", "C10", "_lrucache.py",
       "key = args if not kwds else (*args, kwarg_sentinel, *kwds.items())",
       "key = args if not kwds else (*args, *kwds.items())", rule="R10.1")
mutant("c10-sorted-kwargs", "C10", "_lrucache.py",
       "key = args if not kwds else (*args, kwarg_sentinel, *kwds.items())",
       "key = args if not kwds else (*args, kwarg_sentinel, *sorted(kwds.items()))", rule="R10.1")
mutant("c10-fast-path-when-typed", "C10", "_lrucache.py",
       "        elif len(key) == 1 and type(key[0]) in fast_types:\n            return key[0]  # type: ignore\n        return cls(key)\n",
       "        if len(args) == 1 and not kwds and type(args[0]) in fast_types:\n            return args[0]  # type: ignore\n        return cls(key)\n",
       rule="R10.1")
mutant("c10-callkey-eq-identity", "C10", "_lrucache.py",
       "return type(self) is type(other) and self.values == other.values  # type: ignore",
       "return type(self) is type(other) and self.values is other.values  # type: ignore", rule="R10.1")
mutant("c10-refresh-wrong-end", "C10", "_lrucache.py",
       "self.__cache.move_to_end(key, last=True)", "self.__cache.move_to_end(key, last=False)", rule="R10.2")
mutant("c10-evict-newest", "C10", "_lrucache.py",
       "self.__cache.popitem(last=False)", "self.__cache.popitem()", rule="R10.2")
mutant("c10-hit-no-refresh", "C10", "_lrucache.py",
       "            self.__cache.move_to_end(key, last=True)\n            self.__hits += 1\n",
       "            self.__hits += 1\n", rule="R10.2")
mutant("c10-clear-keeps-hits", "C10", "_lrucache.py",
       "    def cache_clear(self) -> None:\n        self.__hits = 0\n        self.__misses = 0\n        self.__cache.clear()\n\n    def cache_discard(self, /, *args: Any, **kwargs: Any) -> None:\n        self.__cache.pop(CallKey.from_call(args, kwargs, typed=self.__typed), None)\n\n\nclass CachedLRUAsyncCallable",
       "    def cache_clear(self) -> None:\n        self.__misses = 0\n        self.__cache.clear()\n\n    def cache_discard(self, /, *args: Any, **kwargs: Any) -> None:\n        self.__cache.pop(CallKey.from_call(args, kwargs, typed=self.__typed), None)\n\n\nclass CachedLRUAsyncCallable",
       rule="R10.3", unit="_lrucache.MemoizedLRUAsyncCallable.cache_clear")
mutant("c10-info-swapped", "C10", "_lrucache.py",
       "return CacheInfo(self.__hits, self.__misses, None, len(self.__cache))",
       "return CacheInfo(self.__misses, self.__hits, None, len(self.__cache))", rule="R10.6")
mutant("c10-negative-not-normalised", "C10", "_lrucache.py",
       "        maxsize = 0 if maxsize < 0 else maxsize\n", "        maxsize = maxsize\n", rule="R10.4")
mutant("c10-bare-default-256", "C10", "_lrucache.py",
       "CachedLRUAsyncCallable(cast(AC, maxsize), typed, 128)", "CachedLRUAsyncCallable(cast(AC, maxsize), typed, 256)",
       rule="R10.4")
mutant("c10-zero-is-bounded", "C10", "_lrucache.py",
       "        elif maxsize == 0:\n", "        elif maxsize < 0:\n", rule="R10.4")
mutant("c10-discard-untyped-key", "C10", "_lrucache.py",
       "    def cache_discard(self, /, *args: Any, **kwargs: Any) -> None:\n        self.__cache.pop(CallKey.from_call(args, kwargs, typed=self.__typed), None)\n\n\nclass CachedLRUAsyncCallable",
       "    def cache_discard(self, /, *args: Any, **kwargs: Any) -> None:\n        self.__cache.pop(CallKey.from_call(args, kwargs, typed=False), None)\n\n\nclass CachedLRUAsyncCallable",
       rule="R10.5")
mutant("c10-bound-discard-forgets-self", "C10", "_lrucache.py",
       "return self._lru.cache_discard(self.__self__, *args, **kwargs)", "return self._lru.cache_discard(*args, **kwargs)",
       rule="R10.5")
mutant("c10-cache-is-bounded", "C10", "functools.py",
       "return lru_cache(maxsize=None)(user_function)", "return lru_cache(maxsize=128)(user_function)", rule="R10.4")
mutant("c10-error-cached", "C10", "_lrucache.py",
       "            self.__misses += 1\n            result = await self.__wrapped__(*args, **kwargs)\n            # function finished early for another call with the same arguments\n            # the cache has been updated already, do nothing to it\n            if key not in self.__cache:\n                self.__cache[key] = result\n            return result\n",
       "            self.__misses += 1\n            try:\n                result = await self.__wrapped__(*args, **kwargs)\n            except Exception as exc:\n                result = exc\n            if key not in self.__cache:\n                self.__cache[key] = result\n            return result\n",
       rule="R10.6")

# --------------------------------------------------------------------------- C14
mutant("c14-unfix-no-pop", "C14", "contextlib.py",
       "        while self._exit_callbacks:\n            callback = self._exit_callbacks.pop()\n            try:\n",
       "        for callback in reversed(self._exit_callbacks):\n            try:\n",
       rule="R14.3", unit="contextlib.ExitStack.__aexit__")
mutant("c14-fifo-unwind", "C14", "contextlib.py",
       "            callback = self._exit_callbacks.pop()\n", "            callback = self._exit_callbacks.popleft()\n",
       rule="R14.2")
mutant("c14-push-appendleft", "C14", "contextlib.py",
       "        self._exit_callbacks.append(aexit)  # pyright: ignore[reportUnknownArgumentType]\n        return exit\n",
       "        self._exit_callbacks.appendleft(aexit)  # pyright: ignore[reportUnknownArgumentType]\n        return exit\n",
       rule="R14.1")
mutant("c14-except-exception", "C14", "contextlib.py",
       "            except BaseException as exc:  # noqa: B036\n", "            except Exception as exc:  # noqa: B036\n",
       rule="R14.2")
mutant("c14-triple-not-reset", "C14", "contextlib.py",
       "                    reraise_exc = False\n                    exc_type = exc_val = tb = None\n",
       "                    reraise_exc = False\n", rule="R14.2")
mutant("c14-stale-exception-passed", "C14", "contextlib.py",
       "                exc_type, exc_val, tb = type(exc), exc, exc.__traceback__\n",
       "                exc_type, tb = type(exc), exc.__traceback__\n", rule="R14.2")
mutant("c14-abort-on-raise", "C14", "contextlib.py",
       "                reraise_exc = True\n                exc_type, exc_val, tb = type(exc), exc, exc.__traceback__\n",
       "                reraise_exc = True\n                exc_type, exc_val, tb = type(exc), exc, exc.__traceback__\n                break\n",
       rule="R14.2")
mutant("c14-return-suppress-without-received", "C14", "contextlib.py",
       "        return received_exc and suppress_exc\n", "        return received_exc\n", rule="R14.2")
mutant("c14-register-before-enter", "C14", "contextlib.py",
       "        else:\n            context_value = await cm.__aenter__()  # type: ignore\n        self._exit_callbacks.append(aexit)  # pyright: ignore[reportUnknownArgumentType]\n",
       "        else:\n            self._exit_callbacks.append(aexit)\n            context_value = await cm.__aenter__()  # type: ignore\n            return context_value\n        self._exit_callbacks.append(aexit)  # pyright: ignore[reportUnknownArgumentType]\n",
       rule="R14.4", unit="contextlib.ExitStack.enter_context")
mutant("c14-callback-can-suppress", "C14", "contextlib.py",
       "        await callback()\n        return False  # callbacks never suppress exceptions\n",
       "        return await callback()\n", rule="R14.5")
mutant("c14-callback-drops-kwargs", "C14", "contextlib.py",
       "partial(self._aexit_callback, partial(awaitify(callback), *args, **kwargs))",
       "partial(self._aexit_callback, partial(awaitify(callback), *args))", rule="R14.5")
mutant("c14-pop-all-copies", "C14", "contextlib.py",
       "        new_stack._exit_callbacks, self._exit_callbacks = self._exit_callbacks, deque()\n",
       "        new_stack._exit_callbacks = deque(self._exit_callbacks)\n", rule="R14.6")
mutant("c14-pop-all-shares", "C14", "contextlib.py",
       "        new_stack._exit_callbacks, self._exit_callbacks = self._exit_callbacks, deque()\n",
       "        new_stack._exit_callbacks = self._exit_callbacks\n", rule="R14.6")
# (this one was in the corpus as a *neutral* refactoring until round 9: an independent seed showed that it is not - an exit
#  registered by an exit while the stack unwinds lands in the fresh container and never runs; R14.12 decides it)
mutant("c14-unwind-swap-then-iterate", "C14", "contextlib.py",
       "        while self._exit_callbacks:\n            callback = self._exit_callbacks.pop()\n            try:\n",
       "        callbacks, self._exit_callbacks = self._exit_callbacks, deque()\n        for callback in reversed(callbacks):\n            try:\n",
       rule="R14.12")
mutant("c18-unwind-swap-then-iterate", "C18", "contextlib.py",
       "        while self._exit_callbacks:\n            callback = self._exit_callbacks.pop()\n            try:\n",
       "        callbacks, self._exit_callbacks = self._exit_callbacks, deque()\n        for callback in reversed(callbacks):\n            try:\n",
       rule="R18.4")

mutant("c01-ziplongest-retires-aliased-slots", "C01", "itertools.py",
       "                    remaining -= 1\n                    if not remaining:\n                        return\n                    async_iters[index] = fill_iter\n",
       "                    for slot, candidate in enumerate(async_iters):\n                        if candidate is aiterator:\n                            async_iters[slot] = fill_iter\n                            remaining -= 1\n                    if not remaining:\n                        return\n",
       rule="R01.11")
mutant("c01-ziplongest-fills-none", "C01", "itertools.py",
       "                    values.append(fillvalue)\n                else:", "                    values.append(None)\n                else:", rule="R01.11")
mutant("c01-ziplongest-one-short", "C01", "itertools.py",
       "        remaining = len(async_iters)\n        while True:", "        remaining = len(async_iters) - 1\n        while True:", rule="R01.11")
mutant("c01-ziplongest-never-ends", "C01", "itertools.py",
       "                    if not remaining:\n                        return\n                    async_iters[index] = fill_iter\n",
       "                    async_iters[index] = fill_iter\n                    if not remaining:\n                        break\n", rule="R01.11")
neutral("c01-ziplongest-counts-active-up", ["C01", "C05", "C20"], "itertools.py",
        "        remaining = len(async_iters)\n        while True:\n            values: list[Any] = []\n            for index, aiterator in enumerate(async_iters):\n                try:\n                    value = await anext(aiterator)\n                except StopAsyncIteration:\n                    remaining -= 1\n                    if not remaining:\n                        return\n",
        "        exhausted = 0\n        while True:\n            values: list[Any] = []\n            for index, aiterator in enumerate(async_iters):\n                try:\n                    value = await anext(aiterator)\n                except StopAsyncIteration:\n                    exhausted += 1\n                    if exhausted == len(async_iters):\n                        return\n")

mutant("c01-compress-keeps-falsy-selectors", "C01", "itertools.py",
       "            if keep:\n                yield item", "            if keep is not None:\n                yield item", rule="R01.12")
mutant("c01-batched-strict-off-by-one", "C01", "itertools.py",
       "                if strict and len(batch) < n:", "                if strict and len(batch) < n - 1:", rule="R01.12")
mutant("c05-pairwise-skips-ahead", "C05", "itertools.py",
       "            yield prev, current  # type: ignore\n            prev = current",
       "            yield prev, current  # type: ignore\n            prev = await anext(async_iter, current)", rule="R05.11")
mutant("c05-dropwhile-keeps-asking", "C05", "itertools.py",
       "            return\n        async for item in async_iter:\n            yield item",
       "            return\n        async for item in async_iter:\n            await predicate(item)\n            yield item", rule="R05.11")
# the defects repaired as F12 (an exhausted source is asked again), one by one
mutant("c05-dropwhile-asks-exhausted-source-again", "C05", "itertools.py",
       "        else:\n            # every item was dropped: the iterable is exhausted and not asked again\n            return\n", "", rule="R05.11")
mutant("c05-islice-asks-exhausted-source-again", "C05", "itertools.py",
       "            else:\n                # fewer than ``start`` items: the iterable is exhausted and not asked again\n                return\n", "", rule="R05.5")
mutant("c05-pairwise-asks-exhausted-source-again", "C05", "itertools.py",
       "        try:\n            prev = await anext(async_iter)\n        except StopAsyncIteration:\n            # no items at all: the iterable is exhausted and not asked again\n            return\n",
       "        prev = await anext(async_iter, None)\n", rule="R05.11")
mutant("c05-strict-zip-asks-exhausted-source-again", "C05", "builtins.py",
       "_sync_builtins.enumerate(aiters[1:], 1):\n            if await anext(_aiter, sentinel)", "_sync_builtins.enumerate(aiters):\n            if await anext(_aiter, sentinel)", rule="R05.11")
neutral("c01-takewhile-explicit-anext", ["C01", "C05", "C03", "C04", "C06", "C18", "C20"], "itertools.py",
        "        async for item in async_iter:\n            if await predicate(item):\n                yield item\n            else:\n                break\n",
        "        while True:\n            try:\n                item = await anext(async_iter)\n            except StopAsyncIteration:\n                break\n            if not await predicate(item):\n                break\n            yield item\n")

# release histories (R04.9): a failure class other than the three recorded ones (F13-F15) is a new violation
mutant("c04-tee-last-child-leaves-source-open", "C04", "itertools.py",
       "        if not peers and isinstance(iterator, ACloseable):\n            await iterator.aclose()",
       "        if len(peers) == 1 and isinstance(iterator, ACloseable):\n            await iterator.aclose()", rule="R04.9")

# fault cells (R06.10): a failing source / callable is swallowed, replaced, deferred or used again
mutant("c06-takewhile-failing-predicate-ends-quietly", "C06", "itertools.py",
       "            if await predicate(item):\n                yield item\n            else:\n                break\n",
       "            try:\n                keep = await predicate(item)\n            except Exception:\n                break\n"
       "            if keep:\n                yield item\n            else:\n                break\n", rule="R06.10")
mutant("c06-reduce-wraps-failure", "C06", "functools.py",
       "            value = await function(value, head)\n    return value",
       "            try:\n                value = await function(value, head)\n            except Exception as exc:\n"
       "                raise RuntimeError('reduction failed') from exc\n    return value", rule="R06.10")
mutant("c06-reduce-retries-failed-call", "C06", "functools.py",
       "            value = await function(value, head)\n    return value",
       "            try:\n                value = await function(value, head)\n            except Exception:\n"
       "                value = await function(value, head)\n    return value", rule="R06.10")
mutant("c06-takewhile-asks-source-again-after-failure", "C06", "itertools.py",
       "        async for item in async_iter:\n            if await predicate(item):\n                yield item\n            else:\n                break\n",
       "        try:\n            async for item in async_iter:\n                if await predicate(item):\n                    yield item\n"
       "                else:\n                    break\n        except Exception:\n            await anext(async_iter, None)\n            raise\n", rule="R06.10")

mutant("c02-sum-operand-order", "C02", "builtins.py",
       "            total = total + item", "            total = item + total", rule="R02.8")
mutant("c02-reduce-argument-order", "C02", "functools.py",
       "            value = await function(value, head)", "            value = await function(head, value)", rule="R02.8")
mutant("c02-any-ignores-first", "C02", "builtins.py",
       "        async for element in item_iter:\n            if element:\n                return True\n    return False",
       "        await anext(item_iter, None)\n        async for element in item_iter:\n            if element:\n                return True\n    return False",
       rule="R02.8")
neutral("c02-any-return-inside-scope", ["C02", "C04", "C05", "C18"], "builtins.py",
        "            if element:\n                return True\n    return False", "            if element:\n                return True\n        return False")

mutant("c01-cycle-replays-backwards", "C01", "itertools.py",
       "        for item in buffer:\n            yield item", "        for item in reversed(buffer):\n            yield item", rule="R01.12")
mutant("c01-chain-skips-second", "C01", "itertools.py",
       "            async for iterable in iterables:\n                async with ScopedIter(iterable) as iterator:",
       "            await anext(iterables, None)\n            async for iterable in iterables:\n                async with ScopedIter(iterable) as iterator:",
       rule="R01.12")
mutant("c05-callable-iter-extra-call", "C05", "builtins.py",
       "    while value != sentinel:\n        yield value\n        value = await subject()",
       "    while value != sentinel:\n        yield value\n        value = await subject()\n    await subject()", rule="R05.11")

mutant("c02-sorted-reverse-by-reversing", "C02", "builtins.py",
       "            keyed_items.sort(key=lambda ki: ki[0], reverse=reverse)\n            return [item for _, item in keyed_items]",
       "            keyed_items.sort(key=lambda ki: ki[0])\n            return [item for _, item in (reversed(keyed_items) if reverse else keyed_items)]",
       rule="R02.8")

mutant("c01-tee-child-lifo", "C01", "itertools.py",
       "            yield buffer.popleft()", "            yield buffer.pop()", rule="R01.14")
mutant("c01-tee-first-peer-skipped", "C01", "itertools.py",
       "                        for peer_buffer in peers:\n                            peer_buffer.append(item)\n",
       "                        for peer_buffer in peers[1:]:\n                            peer_buffer.append(item)\n                        buffer.append(item)\n",
       rule="R01.14")
mutant("c16-stale-group-keeps-reading", "C16", "itertools.py",
       "        if state.current_group is not self:\n            raise StopAsyncIteration\n        await state.maybe_step()",
       "        await state.maybe_step()", rule="R16.8")

# --------------------------------------------------------------------------- C13
mutant("c13-handlers-reordered", "C13", "contextlib.py",
       "            except StopAsyncIteration as exc:\n                return exc is not exc_tb\n            except RuntimeError as exc:\n                if exc is exc_val:\n                    return False\n                # Handle promotion of unhandled Stop[Async]Iteration to RuntimeError\n                if isinstance(exc_val, (StopIteration, StopAsyncIteration)):\n                    if exc.__cause__ is exc_val:\n                        return False\n                raise\n            except exc_type as exc:\n                if exc is not exc_val:\n                    raise\n                return False\n",
       "            except exc_type as exc:\n                if exc is not exc_val:\n                    raise\n                return False\n            except StopAsyncIteration as exc:\n                return exc is not exc_tb\n            except RuntimeError as exc:\n                if exc is exc_val:\n                    return False\n                # Handle promotion of unhandled Stop[Async]Iteration to RuntimeError\n                if isinstance(exc_val, (StopIteration, StopAsyncIteration)):\n                    if exc.__cause__ is exc_val:\n                        return False\n                raise\n",
       rule="R13.1")
mutant("c13-runtimeerror-suppressed", "C13", "contextlib.py",
       "                if exc is exc_val:\n                    return False\n                # Handle promotion",
       "                if exc is exc_val:\n                    return True\n                # Handle promotion", rule="R13.1")
mutant("c13-no-raise-when-yields-again", "C13", "contextlib.py",
       '                raise RuntimeError("generator did not stop after throw() in __aexit__")\n',
       "                return False\n", rule="R13.1")
mutant("c13-promotion-misattributed", "C13", "contextlib.py",
       "                    if exc.__cause__ is exc_val:\n                        return False\n",
       "                    return False\n", rule="R13.1")
mutant("c13-promotion-not-recognised", "C13", "contextlib.py",
       "                if isinstance(exc_val, (StopIteration, StopAsyncIteration)):\n                    if exc.__cause__ is exc_val:\n                        return False\n                raise\n",
       "                raise\n", rule="R13.1")
mutant("c13-new-exception-swallowed", "C13", "contextlib.py",
       "            except exc_type as exc:\n                if exc is not exc_val:\n                    raise\n                return False\n",
       "            except exc_type as exc:\n                return False\n", rule="R13.1")
mutant("c13-stop-not-suppressing", "C13", "contextlib.py",
       "                return exc is not exc_tb\n", "                return exc is exc_tb\n", rule="R13.1")
mutant("c13-throw-type-not-value", "C13", "contextlib.py",
       "result = await self.gen.athrow(exc_val)", "result = await self.gen.athrow(exc_type)", rule="R13.2")
mutant("c13-generatorexit-thrown", "C13", "contextlib.py",
       "                if exc_type is GeneratorExit:\n                    result = await self.gen.aclose()  # type: ignore\n                else:\n                    result = await self.gen.athrow(exc_val)\n",
       "                result = await self.gen.athrow(exc_val)\n", rule="R13")
mutant("c13-noexc-no-stop-check", "C13", "contextlib.py",
       '            else:\n                raise RuntimeError("generator did not stop after __aexit__")\n',
       "            else:\n                return False\n", rule="R13.1")
mutant("c13-noexc-double-step", "C13", "contextlib.py",
       "            try:\n                await self.gen.__anext__()\n            except StopAsyncIteration:\n                return False\n",
       "            try:\n                await self.gen.__anext__()\n                await self.gen.__anext__()\n            except StopAsyncIteration:\n                return False\n",
       rule="R13")
mutant("c13-enter-drops-value", "C13", "contextlib.py",
       "            return await self.gen.__anext__()\n        except StopAsyncIteration:\n",
       "            await self.gen.__anext__()\n            return None\n        except StopAsyncIteration:\n", rule="R13.3")
mutant("c13-enter-no-yield-silent", "C13", "contextlib.py",
       '            raise RuntimeError("generator did not yield to __aenter__") from None\n',
       "            return None  # type: ignore\n", rule="R13.3")
neutral("c13-identity-test-like-stdlib", ["C13", "C06"], "contextlib.py",
        "                return exc is not exc_tb\n", "                return exc is not exc_val\n")

# --------------------------------------------------------------------------- C09
TEE_BODY = ("            if not buffer:\n                async with lock:\n"
            "                    # Another peer produced an item while we were waiting for the lock.\n"
            "                    # Proceed with the next loop iteration to yield the item.\n"
            "                    if buffer:\n                        continue\n")
mutant("c09-pull-outside-lock", "C09", "itertools.py",
       TEE_BODY + "                    try:\n                        item = await iterator.__anext__()\n                    except StopAsyncIteration:\n                        break\n                    else:\n",
       "            if not buffer:\n                async with lock:\n                    pass\n                if True:\n                    if buffer:\n                        continue\n                    try:\n                        item = await iterator.__anext__()\n                    except StopAsyncIteration:\n                        break\n                    else:\n",
       rule="R09.1", unit="itertools.tee_peer")
mutant("c09-no-recheck", "C09", "itertools.py", TEE_BODY,
       "            if not buffer:\n                async with lock:\n", rule="R09.2", unit="itertools.tee_peer")
mutant("c09-recheck-inverted", "C09", "itertools.py",
       "                    if buffer:\n                        continue\n",
       "                    if not buffer:\n                        continue\n", rule="R09.2")
mutant("c09-await-inside-broadcast", "C09", "itertools.py",
       "                        for peer_buffer in peers:\n                            peer_buffer.append(item)\n",
       "                        for peer_buffer in peers:\n                            peer_buffer.append(item)\n                            await identity(None)\n",
       rule="R09.3")
mutant("c09-broadcast-skips-own", "C09", "itertools.py",
       "                        for peer_buffer in peers:\n                            peer_buffer.append(item)\n",
       "                        for peer_buffer in peers:\n                            if peer_buffer is not buffer:\n                                peer_buffer.append(item)\n                        buffer.append(item)\n",
       rule="R09.3")
mutant("c09-broadcast-partial-list", "C09", "itertools.py",
       "                        for peer_buffer in peers:\n                            peer_buffer.append(item)\n",
       "                        for peer_buffer in peers[:2]:\n                            peer_buffer.append(item)\n",
       rule="R09.3")
mutant("c09-lifo-buffer", "C09", "itertools.py",
       "            yield buffer.popleft()\n", "            yield buffer.pop()\n", rule="R09.4")
mutant("c09-nonremoving-read", "C09", "itertools.py",
       "            yield buffer.popleft()\n", "            yield buffer[0]\n", rule="R09.4")
mutant("c09-shared-single-buffer", "C09", "itertools.py",
       "        self._buffers: List[Deque[T]] = [deque() for _ in range(n)]\n",
       "        self._buffers: List[Deque[T]] = [deque()] * n\n", rule="R09.5")
mutant("c09-peers-copy-per-child", "C09", "itertools.py",
       "                peers=self._buffers,\n", "                peers=list(self._buffers),\n", rule="R09.5")
mutant("c09-finally-keeps-buffer", "C09", "itertools.py",
       "            if peer_buffer is buffer:\n                peers.pop(idx)\n                break\n",
       "            if peer_buffer is buffer:\n                break\n", rule="R09.6")
neutral("c09-rename-and-comment", ["C09", "C04", "C20"], "itertools.py",
        "                        for peer_buffer in peers:\n                            peer_buffer.append(item)\n",
        "                        for other in peers:\n                            other.append(item)\n")

# --------------------------------------------------------------------------- C12
mutant("c12-no-recheck-under-lock", "C12", "functools.py",
       "                if (stored := self._instance_value) is self:\n                    # the instance attribute is still this placeholder, and we\n                    # hold the lock. Start the getter to store the value on the\n                    # instance and return the value.\n                    return await self._get_attribute()\n",
       "                return await self._get_attribute()\n", rule="R12.1")
mutant("c12-getter-outside-lock", "C12", "functools.py",
       "            async with self._lock:\n                # check again for a cached value\n                if (stored := self._instance_value) is self:\n",
       "            async with self._lock:\n                pass\n            if True:\n                # check again for a cached value\n                if (stored := self._instance_value) is self:\n",
       rule="R12.1")
mutant("c12-await-between-recheck-and-getter", "C12", "functools.py",
       "                    return await self._get_attribute()\n",
       "                    await AwaitableValue(None)\n                    return await self._get_attribute()\n", rule="R12.1")
mutant("c12-publish-before-await", "C12", "functools.py",
       "        value = await self._func(self._instance)\n        self._instance.__dict__[self._name] = AwaitableValue(value)\n        return value\n",
       "        pending = self._func(self._instance)\n        self._instance.__dict__[self._name] = pending\n        value = await pending\n        return value\n",
       rule="R12.2")
mutant("c12-publish-in-finally", "C12", "functools.py",
       "        value = await self._func(self._instance)\n        self._instance.__dict__[self._name] = AwaitableValue(value)\n        return value\n",
       "        value = None\n        try:\n            value = await self._func(self._instance)\n        finally:\n            self._instance.__dict__[self._name] = AwaitableValue(value)\n        return value\n",
       rule="R12.2")
mutant("c12-publish-other-value", "C12", "functools.py",
       "        self._instance.__dict__[self._name] = AwaitableValue(value)\n        return value\n",
       "        self._instance.__dict__[self._name] = AwaitableValue(value)\n        return await self._func(self._instance)\n",
       rule="R12.2")
mutant("c12-suspend-before-publish", "C12", "functools.py",
       "        value = await self._func(self._instance)\n        self._instance.__dict__[self._name] = AwaitableValue(value)\n",
       "        value = await self._func(self._instance)\n        async with self._lock:\n            pass\n        self._instance.__dict__[self._name] = AwaitableValue(value)\n",
       rule="R12.2")
mutant("c12-manual-lock", "C12", "functools.py",
       "            async with self._lock:\n                # check again for a cached value\n                if (stored := self._instance_value) is self:\n                    # the instance attribute is still this placeholder, and we\n                    # hold the lock. Start the getter to store the value on the\n                    # instance and return the value.\n                    return await self._get_attribute()\n",
       "            await self._lock.__aenter__()\n            if (stored := self._instance_value) is self:\n                value = await self._get_attribute()\n                await self._lock.__aexit__(None, None, None)\n                return value\n            await self._lock.__aexit__(None, None, None)\n",
       rule="R12")
mutant("c12-data-descriptor", "C12", "functools.py",
       "    def __get__(\n        self, instance: Optional[T], owner: Optional[Type[Any]]\n    ) -> Union[\"CachedProperty[T, R]\", Awaitable[R]]:\n",
       "    def __set__(self, instance: Any, value: Any) -> None:\n        instance.__dict__[self.attrname] = value\n\n    def __get__(\n        self, instance: Optional[T], owner: Optional[Type[Any]]\n    ) -> Union[\"CachedProperty[T, R]\", Awaitable[R]]:\n",
       rule="R12.4")
mutant("c12-cache-on-descriptor", "C12", "functools.py",
       "        cache[name] = wrapper\n        return wrapper\n",
       "        cache[name] = wrapper\n        self.last = wrapper\n        return wrapper\n", rule="R12.4")
mutant("c12-shared-lock", "C12", "functools.py",
       "            self.func, instance, name, self._asynccontextmanager_type()\n",
       "            self.func, instance, name, self._asynccontextmanager_type\n", rule="R12.4")
mutant("c12-deleted-slot-reuses-self", "C12", "functools.py",
       "            return getattr(self._instance, self._name)\n", "            return self\n", rule="R12.5")
mutant("c12-awaitablevalue-suspends", "C12", "functools.py",
       "        return self.value\n        yield  # type: ignore # pragma: no cover\n",
       "        yield  # type: ignore # pragma: no cover\n        return self.value\n", rule="R12.6")
neutral("c12-recheck-two-statements", ["C12", "C17", "C18"], "functools.py",
        "                if (stored := self._instance_value) is self:\n                    # the instance attribute is still this placeholder, and we\n",
        "                stored = self._instance_value\n                if stored is self:\n                    # the instance attribute is still this placeholder, and we\n")

# --------------------------------------------------------------------------- C07 / C08
mutant("c07-aclose-reaches-source", "C07", "asynctools.py",
       "        await wrapper_iterator.aclose()\n",
       "        await wrapper_iterator.aclose()\n        if hasattr(self.__wrapped__, 'aclose'):\n            await self.__wrapped__.aclose()\n",
       rule="R07.1")
mutant("c07-forward-aclose", "C07", "asynctools.py",
       "        if hasattr(iterator, \"athrow\"):\n",
       "        if hasattr(iterator, \"aclose\"):\n            self._close_source = iterator.aclose\n        if hasattr(iterator, \"athrow\"):\n",
       rule="R07")
mutant("c07-anext-from-source", "C07", "asynctools.py",
       "        self.__anext__ = self._wrapper.__anext__  # type: ignore\n",
       "        self.__anext__ = iterator.__anext__  # type: ignore\n", rule="R07")
mutant("c07-aiter-returns-source", "C07", "asynctools.py",
       "    def __aiter__(self) -> AsyncGenerator[T, S]:\n        return self\n",
       "    def __aiter__(self) -> AsyncGenerator[T, S]:\n        return self.__wrapped__  # type: ignore\n", rule="R07")
mutant("c07-athrow-not-redirected", "C07", "asynctools.py",
       "        if hasattr(self, \"athrow\"):\n            self.athrow = wrapper_iterator.athrow\n", "", rule="R07.3")
mutant("c07-borrow-returns-source-for-generators", "C07", "asynctools.py",
       "    return _BorrowedAsyncIterator[T, Any](iterator)\n",
       "    if hasattr(iterator, 'asend'):\n        return iterator\n    return _BorrowedAsyncIterator[T, Any](iterator)\n",
       rule="R07.4")
mutant("c07-islice-skip-unborrowed", "C07", "itertools.py",
       "async for _count, element in aenumerate(_borrow(async_iter), start=1):",
       "async for _count, element in aenumerate(async_iter, start=1):", rule="R07.4", unit="itertools.islice")
mutant("c07-largest-unborrowed", "C07", "heapq.py",
       "async for index, item in a_zip(range(n), borrow(iterator))", "async for index, item in a_zip(range(n), iterator)",
       rule="R07.4", unit="heapq._largest")
mutant("c07-core-borrow-closes", "C07", "_core.py",
       "    return (item async for item in iterator)\n",
       "    async def _view() -> AsyncGenerator[T, None]:\n        async with ScopedIter(iterator) as it:\n            async for item in it:\n                yield item\n\n    return _view()\n",
       rule="R07.4")
mutant("c08-scoped-aclose-closes", "C08", "asynctools.py",
       "    async def aclose(self) -> None:\n        pass\n",
       "    async def aclose(self) -> None:\n        await self._aclose_wrapper()\n", rule="R08.1")
mutant("c08-enter-returns-raw", "C08", "asynctools.py",
       "        self._borrowed_iter = _ScopedAsyncIterator(self._iterator)\n        return self._borrowed_iter\n",
       "        self._borrowed_iter = _ScopedAsyncIterator(self._iterator)\n        return self._iterator\n", rule="R08.2")
mutant("c08-exit-skips-on-error", "C08", "asynctools.py",
       "        await self._borrowed_iter._aclose_wrapper()  # type: ignore\n        await self._iterator.aclose()  # type: ignore\n",
       "        await self._borrowed_iter._aclose_wrapper()  # type: ignore\n        if args[0] is None:\n            await self._iterator.aclose()  # type: ignore\n",
       rule="R08.3")
mutant("c08-exit-forgets-wrapper", "C08", "asynctools.py",
       "        await self._borrowed_iter._aclose_wrapper()  # type: ignore\n        await self._iterator.aclose()  # type: ignore\n",
       "        await self._iterator.aclose()  # type: ignore\n", rule="R08.3")
mutant("c08-exit-closes-twice", "C08", "asynctools.py",
       "        await self._iterator.aclose()  # type: ignore\n\n    def __repr__(self) -> str:\n        return f\"<{self.__class__.__name__}",
       "        await self._iterator.aclose()  # type: ignore\n        await self._iterator.aclose()  # type: ignore\n\n    def __repr__(self) -> str:\n        return f\"<{self.__class__.__name__}",
       rule="R08.3")
mutant("c08-unwrap-nested", "C08", "asynctools.py",
       "    return _ScopedAsyncIteratorContext(iterator)\n",
       "    if isinstance(iterator, _ScopedAsyncIterator):\n        iterator = iterator.__wrapped__\n    return _ScopedAsyncIteratorContext(iterator)\n",
       rule="R08.4")
mutant("c08-neutral-for-closeable", "C08", "asynctools.py",
       "    if not hasattr(iterator := aiter(iterable), \"aclose\"):\n",
       "    if hasattr(iterator := aiter(iterable), \"aclose\"):\n", rule="R08.4")
mutant("c08-exit-resets-guard", "C08", "asynctools.py",
       "        await self._borrowed_iter._aclose_wrapper()  # type: ignore\n        await self._iterator.aclose()  # type: ignore\n",
       "        wrapper, self._borrowed_iter = self._borrowed_iter, None\n        await wrapper._aclose_wrapper()  # type: ignore\n        await self._iterator.aclose()  # type: ignore\n",
       rule="R08.6")
mutant("c08-enter-unguarded", "C08", "asynctools.py",
       "        if self._borrowed_iter is not None:\n            raise RuntimeError(\"scoped_iter is not re-entrant\")\n",
       "", rule="R08.6")
neutral("c08-guard-early-return-form", ["C08", "C07", "C06"], "asynctools.py",
        "        if self._borrowed_iter is not None:\n            raise RuntimeError(\"scoped_iter is not re-entrant\")\n        self._borrowed_iter = _ScopedAsyncIterator(self._iterator)\n        return self._borrowed_iter\n",
        "        if self._borrowed_iter is None:\n            self._borrowed_iter = handle = _ScopedAsyncIterator(self._iterator)\n            return handle\n        raise RuntimeError(\"scoped_iter is not re-entrant\")\n")
neutral("c08-exit-signature", ["C08", "C07", "C06"], "asynctools.py",
        "    async def __aexit__(self, *args: Any) -> None:\n        await self._borrowed_iter._aclose_wrapper()",
        "    async def __aexit__(self, exc_type: Any, exc_val: Any, exc_tb: Any) -> None:\n        await self._borrowed_iter._aclose_wrapper()")

# --------------------------------------------------------------------------- C03
mutant("c03-takewhile-no-awaitify", "C03", "itertools.py",
       "    async with ScopedIter(iterable) as async_iter:\n        predicate = _awaitify(predicate)\n        async for item in async_iter:\n            if await predicate(item):\n                yield item\n            else:\n                break\n",
       "    async with ScopedIter(iterable) as async_iter:\n        async for item in async_iter:\n            if predicate(item):\n                yield item\n            else:\n                break\n",
       rule="R03.1", unit="itertools.takewhile")
mutant("c03-filter-result-not-awaited", "C03", "builtins.py",
       "                if await function(item):\n                    yield item\n",
       "                if function(item):\n                    yield item\n", rule="R03.1", unit="builtins.filter")
mutant("c03-key-iscoroutinefunction-dispatch", "C03", "builtins.py",
       "            key = _awaitify(key)\n            best_key = await key(best)\n",
       "            from inspect import iscoroutinefunction as _isco\n            best_key = (await key(best)) if _isco(key) else key(best)\n            key = _awaitify(key)\n",
       rule="R03.1", unit="builtins._min_max")
mutant("c03-merge-key-raw", "C03", "heapq.py",
       "    a_key = awaitify(key) if key is not None else None\n", "    a_key = key\n", rule="R03.1")
mutant("c03-groupby-key-raw", "C03", "itertools.py",
       "            else _awaitify(key)\n", "            else key  # type: ignore\n", rule="R03.1")
mutant("c03-exitstack-callback-raw", "C03", "contextlib.py",
       "partial(self._aexit_callback, partial(awaitify(callback), *args, **kwargs))",
       "partial(self._aexit_callback, partial(callback, *args, **kwargs))", props=["C03", "C14"])
mutant("c03-sum-sync-for", "C03", "builtins.py",
       "    async with ScopedIter(iterable) as item_iter:\n        async for item in item_iter:\n            total = total + item\n",
       "    for item in iterable:  # type: ignore\n        total = total + item\n", rule="R03.2", unit="builtins.sum")
mutant("c03-list-async-for-direct", "C03", "builtins.py",
       "    async with ScopedIter(iterable) as item_iter:\n        return [element async for element in item_iter]\n",
       "    return [element async for element in iterable]  # type: ignore\n", rule="R03.2", unit="builtins.list")
mutant("c03-sorted-builtin-fastpath", "C03", "builtins.py",
       "        if key is None:\n            items: _sync_builtins.list[Any] = [item async for item in item_iter]\n",
       "        if key is None and isinstance(iterable, _sync_builtins.list):\n            return _sync_builtins.sorted(iterable, reverse=reverse)\n        if key is None:\n            items: _sync_builtins.list[Any] = [item async for item in item_iter]\n",
       rule="R03.2", unit="builtins.sorted")
mutant("c03-aiter-sync-first", "C03", "_core.py",
       "    if isinstance(subject, AsyncIterable):\n        return subject.__aiter__()\n    else:\n        return _aiter_sync(subject).__aiter__()\n",
       "    if isinstance(subject, Iterable):\n        return _aiter_sync(subject).__aiter__()\n    else:\n        return subject.__aiter__()  # type: ignore\n",
       rule="R03.3", unit="_core.aiter")
mutant("c03-awaitify-calls-twice", "C03", "_core.py",
       "            if isinstance(value, Awaitable):\n                self._async_call = self.__wrapped__  # type: ignore\n                return value  # pyright: ignore\n",
       "            if isinstance(value, Awaitable):\n                self._async_call = self.__wrapped__  # type: ignore\n                return self.__wrapped__(*args, **kwargs)  # pyright: ignore\n",
       rule="R03.3", unit="_core.Awaitify.__call__")
mutant("c03-awaitify-plain-value", "C03", "_core.py",
       "                self._async_call = force_async(self.__wrapped__)  # type: ignore\n                return await_value(value)\n",
       "                self._async_call = force_async(self.__wrapped__)  # type: ignore\n                return value  # type: ignore\n",
       rule="R03.3")
mutant("c03-awaitify-caches-wrong-flavour", "C03", "_core.py",
       "                self._async_call = force_async(self.__wrapped__)  # type: ignore\n",
       "                self._async_call = self.__wrapped__  # type: ignore\n", rule="R03.3")
mutant("c03-nlargest-plain-def", "C03", "heapq.py",
       "async def nsmallest(\n    iterable: AnyIterable[T],\n    n: int,\n    key: Optional[Callable[[Any], Awaitable[Any]]] = None,\n) -> \"list[T]\":",
       "def nsmallest(\n    iterable: AnyIterable[T],\n    n: int,\n    key: Optional[Callable[[Any], Awaitable[Any]]] = None,\n) -> \"list[T]\":",
       rule="R03.4",
       edits=[("async def nsmallest(\n", "def nsmallest(\n"),
              ("    return await _largest(iterable=iterable, n=n, key=a_key, reverse=True)\n", "    return []\n")])
neutral("c03-awaitify-new-name", ["C03", "C06", "C17"], "itertools.py",
        "        predicate = _awaitify(predicate)\n        async for item in async_iter:\n            if await predicate(item):\n                yield item\n            else:\n                break\n",
        "        apredicate = _awaitify(predicate)\n        async for item in async_iter:\n            keep = apredicate(item)\n            if await keep:\n                yield item\n            else:\n                break\n")

# --------------------------------------------------------------------------- C02
mutant("c02-max-unfix-xor", "C02", "builtins.py",
       "                if (best < item) if invert else (item < best):\n",
       "                if invert ^ (item < best):\n", rule="R02.1", unit="builtins._min_max")
mutant("c02-keyed-max-le", "C02", "builtins.py",
       "                if (best_key < item_key) if invert else (item_key < best_key):\n",
       "                if (best_key <= item_key) if invert else (item_key < best_key):\n", rule="R02.1")
mutant("c02-min-le", "C02", "builtins.py",
       "                if (best < item) if invert else (item < best):\n",
       "                if (best < item) if invert else (item <= best):\n", rule="R02.1")
mutant("c02-keyed-stale-key", "C02", "builtins.py",
       "                    best = item\n                    best_key = item_key\n",
       "                    best = item\n", rule="R02.1")
mutant("c02-minmax-swapped", "C02", "builtins.py",
       "    return await _min_max(iterable, key, True, default)\n", "    return await _min_max(iterable, key, False, default)\n",
       rule="R02", optional=True)
mutant("c02-default-unfix", "C02", "builtins.py",
       "        best = await anext(item_iter, default=__MIN_MAX_DEFAULT)\n",
       "        best = await anext(item_iter, default=default)\n", rule="R02.2")
mutant("c02-sum-unfix-inplace", "C02", "builtins.py",
       "            total = total + item\n", "            total += item\n", rule="R02.3", unit="builtins.sum")
mutant("c02-reduce-inplace", "C02", "functools.py",
       "        async for head in item_iter:\n            value = await function(value, head)\n",
       "        async for head in item_iter:\n            value += await function(value, head)\n", rule="R02")
mutant("c02-dict-updates-kwargs-source", "C02", "builtins.py",
       "    if kwargs:\n        base_dict.update(kwargs)\n    return base_dict\n",
       "    if kwargs and isinstance(iterable, _sync_builtins.dict):\n        iterable.update(kwargs)\n    if kwargs:\n        base_dict.update(kwargs)\n    return base_dict\n",
       rule="R02.3", unit="builtins.dict")
mutant("c02-largest-unfix-sign", "C02", "heapq.py",
       "        order_sign = -1\n", "        order_sign = -1 if reverse else 1\n", rule="R02.4")
mutant("c02-reverselt-no-eq", "C02", "heapq.py",
       "    def __eq__(self, other: ReverseLT[LT]) -> bool:  # type: ignore[override]\n        return not (self.key < other.key or other.key < self.key)\n",
       "", rule="R02.4")
mutant("c02-largest-nonstrict-replace", "C02", "heapq.py",
       "            if worst_key < item_key:\n", "            if not (item_key < worst_key):\n", rule="R02.4")
mutant("c02-largest-replacement-wrong-step", "C02", "heapq.py",
       "                next_index += 1 * order_sign\n", "                next_index += 1\n", rule="R02.4")
mutant("c02-nsmallest-direction", "C02", "heapq.py",
       "    return await _largest(iterable=iterable, n=n, key=a_key, reverse=True)\n",
       "    return await _largest(iterable=iterable, n=n, key=a_key, reverse=False)\n", rule="R02.4")
mutant("c02-sorted-reversed-after", "C02", "builtins.py",
       "            items.sort(reverse=reverse)\n            return items\n",
       "            items.sort()\n            return items[::-1] if reverse else items\n", rule="R02.5")
mutant("c02-sorted-compares-items", "C02", "builtins.py",
       "            keyed_items.sort(key=lambda ki: ki[0], reverse=reverse)\n",
       "            keyed_items.sort(reverse=reverse)\n", rule="R02.5")
mutant("c02-reduce-arg-order", "C02", "functools.py",
       "            value = await function(value, head)\n", "            value = await function(head, value)\n", rule="R02.6")
mutant("c02-minmax-empty-typeerror", "C02", "builtins.py",
       '                raise ValueError(f"{name}() arg is an empty sequence")\n',
       '                raise TypeError(f"{name}() arg is an empty sequence")\n', rule="R02.6")
neutral("c02-guard-as-if-else", ["C02", "C05", "C06"], "builtins.py",
        "                if (best < item) if invert else (item < best):\n                    best = item\n",
        "                if invert:\n                    if best < item:\n                        best = item\n                elif item < best:\n                    best = item\n")
neutral("c02-max-gt-operator", ["C02"], "builtins.py",
        "                if (best < item) if invert else (item < best):\n", "                if (item > best) if invert else (best > item):\n")

# --------------------------------------------------------------------------- C01
mutant("c01-merge-unfix-position", "C01", "heapq.py",
       "            (itr, idx)\n", "            (itr, idx if not reverse else -idx)\n", rule="R01.1", unit="heapq.merge")
mutant("c01-merge-no-position", "C01", "heapq.py",
       "            (itr, idx)\n", "            (itr, 0)\n", rule="R01.1")
mutant("c01-keyiter-eq-identity", "C01", "heapq.py",
       "    def __eq__(self, other: _KeyIter[LT]) -> bool:  # type: ignore[override]\n        return not (self.head_key < other.head_key or other.head_key < self.head_key)\n",
       "", rule="R01.1")
mutant("c01-keyiter-lt-ignores-reverse", "C01", "heapq.py",
       "        return self.reverse ^ (self.head_key < other.head_key)\n",
       "        return self.head_key < other.head_key\n", rule="R01.1")
mutant("c01-keyiter-lt-swapped", "C01", "heapq.py",
       "        return self.reverse ^ (self.head_key < other.head_key)\n",
       "        return self.reverse ^ (other.head_key < self.head_key)\n", rule="R01.1")
mutant("c01-zip-strict-wrong-exception", "C01", "builtins.py",
       "            raise ValueError(\n                f\"zip() argument {tried + 1} is shorter than argument{plural}{tried}\"\n            ) from None\n",
       "            raise IndexError(\n                f\"zip() argument {tried + 1} is shorter than argument{plural}{tried}\"\n            ) from None\n",
       rule="R01.2")
mutant("c01-batched-raises-runtime", "C01", "itertools.py",
       '        raise ValueError("n must be at least one")\n', '        raise RuntimeError("n must be at least one")\n', rule="R01.2")
mutant("c01-cycle-yields-copy", "C01", "itertools.py",
       "        for item in buffer:\n            yield item\n", "        for item in buffer:\n            yield type(item)(item)\n",
       rule="R01.3", unit="itertools.cycle")
mutant("c01-enumerate-str-item", "C01", "builtins.py",
       "            yield count, item\n", "            yield count, (item, count)[0] if count else str(item)\n", rule="R01.3")
mutant("c01-pairwise-arith", "C01", "itertools.py",
       "            yield prev, current  # type: ignore\n", "            yield prev, current + 0  # type: ignore\n", rule="R01.3")
mutant("c01-map-yields-args", "C01", "builtins.py",
       "            result = function(*args)\n            yield await result\n",
       "            result = function(*args)\n            await result\n            yield args\n", rule="R01.3")
mutant("c01-zip-reversed-sources", "C01", "builtins.py",
       "            yield (*[await anext(it) for it in aiters],)\n",
       "            yield (*[await anext(it) for it in reversed(aiters)],)[::-1]\n", rule="R01")
mutant("c01-zip-longest-reversed", "C01", "itertools.py",
       "    async_iters = [aiter(it) for it in iterables]\n", "    async_iters = [aiter(it) for it in iterables[::-1]]\n",
       rule="R01.4")
neutral("c01-batched-tuple-display", ["C01", "C05", "C20"], "itertools.py",
        "                yield tuple(batch)\n        except StopAsyncIteration:", "                yield (*batch,)\n        except StopAsyncIteration:")

# --------------------------------------------------------------------------- C05
mutant("c05-takewhile-lookahead", "C05", "itertools.py",
       "        async for item in async_iter:\n            if await predicate(item):\n                yield item\n            else:\n                break\n",
       "        sentinel = object()\n        item = await anext(async_iter, sentinel)\n        while item is not sentinel and await predicate(item):\n            upcoming = await anext(async_iter, sentinel)\n            yield item\n            item = upcoming\n",
       rule="R05.1", unit="itertools.takewhile")
mutant("c05-enumerate-prefetch", "C05", "builtins.py",
       "        async for item in item_iter:\n            yield count, item\n            count += 1\n",
       "        pending = await anext(item_iter, __ANEXT_DEFAULT)\n        while pending is not __ANEXT_DEFAULT:\n            item = pending\n            pending = await anext(item_iter, __ANEXT_DEFAULT)\n            yield count, item\n            count += 1\n",
       rule="R05.1", unit="builtins.enumerate")
mutant("c05-filter-predicate-twice", "C05", "builtins.py",
       "                if await function(item):\n                    yield item\n",
       "                if await function(item) and await function(item):\n                    yield item\n", rule="R05.2")
mutant("c05-merge-refill-before-yield", "C05", "heapq.py",
       "                yield itr.head\n                if await itr.pull_head():\n",
       "                head = itr.head\n                more = await itr.pull_head()\n                yield head\n                if more:\n",
       rule="R05.3")
mutant("c05-all-no-short-circuit", "C05", "builtins.py",
       "    async with ScopedIter(iterable) as item_iter:\n        async for element in item_iter:\n            if not element:\n                return False\n    return True\n",
       "    result = True\n    async with ScopedIter(iterable) as item_iter:\n        async for element in item_iter:\n            if not element:\n                result = False\n    return result\n",
       rule="R05.4", unit="builtins.all")
mutant("c05-any-exhausted-true", "C05", "builtins.py",
       "            if element:\n                return True\n    return False\n", "            if element:\n                return True\n    return True\n",
       rule="R05.4")
mutant("c05-islice-stop-check-first", "C05", "itertools.py",
       "            stop -= start + 1\n            async for idx, element in aenumerate(async_iter, start=0):\n                if not idx % step:\n                    yield element\n                if idx >= stop:\n                    return\n",
       "            stop -= start\n            async for idx, element in aenumerate(async_iter, start=0):\n                if idx >= stop:\n                    return\n                if not idx % step:\n                    yield element\n",
       rule="R05.5")
mutant("c05-zip-strict-reversed", "C05", "builtins.py",
       "            for tried, _aiter in _sync_builtins.enumerate(aiters):  # noqa: B007\n                items.append(await anext(_aiter))\n",
       "            for tried, _aiter in _sync_builtins.enumerate(aiters[::-1]):  # noqa: B007\n                items.append(await anext(_aiter))\n            items.reverse()\n",
       rule="R05.6")
neutral("c05-takewhile-while-loop", ["C05", "C01", "C04", "C06"], "itertools.py",
        "        async for item in async_iter:\n            if await predicate(item):\n                yield item\n            else:\n                break\n",
        "        sentinel = object()\n        while True:\n            item = await anext(async_iter, sentinel)\n            if item is sentinel or not await predicate(item):\n                break\n            yield item\n")

# --------------------------------------------------------------------------- C20
mutant("c20-enumerate-collects", "C20", "builtins.py",
       "        async for item in item_iter:\n            yield count, item\n            count += 1\n",
       "        seen = []\n        async for item in item_iter:\n            seen.append(item)\n            yield count, item\n            count += 1\n",
       rule="R20.1", unit="builtins.enumerate")
mutant("c20-batched-never-cleared", "C20", "itertools.py",
       "                batch.clear()\n", "                pass\n", rule="R20.1", unit="itertools.batched")
mutant("c20-merge-heappush-in-loop", "C20", "heapq.py",
       "                    _heapq.heapreplace(iter_heap, (itr, idx))\n",
       "                    _heapq.heappush(iter_heap, (itr, idx))\n", rule="R20")
mutant("c20-largest-unbounded-fill", "C20", "heapq.py",
       "            async for index, item in a_zip(range(n), borrow(iterator))\n",
       "            async for index, item in a_enumerate(borrow(iterator))\n", rule="R20.1")
mutant("c20-largest-push-not-replace", "C20", "heapq.py",
       "                _heapq.heapreplace(n_heap, (item_key, next_index, item))\n",
       "                _heapq.heappush(n_heap, (item_key, next_index, item))\n", rule="R20")
mutant("c20-zip-longest-values-hoisted", "C20", "itertools.py",
       "        remaining = len(async_iters)\n        while True:\n            values: list[Any] = []\n",
       "        remaining = len(async_iters)\n        values: list[Any] = []\n        while True:\n",
       rule="R20.1", unit="itertools.zip_longest")
mutant("c20-tee-nonremoving", "C20", "itertools.py",
       "            yield buffer.popleft()\n", "            yield buffer[0]\n            buffer.rotate(-1)\n", rule="R20.2")
mutant("c20-reduce-history", "C20", "functools.py",
       "        async for head in item_iter:\n            value = await function(value, head)\n",
       "        history = [value]\n        async for head in item_iter:\n            value = await function(value, head)\n            history.append(value)\n",
       rule="R20.1", unit="functools.reduce")
mutant("c20-min-max-lists-all", "C20", "builtins.py",
       "        elif key is None:\n            async for item in item_iter:\n",
       "        elif key is None:\n            rest = [item async for item in item_iter]\n            for item in rest:\n",
       rule="R20.1", unit="builtins._min_max")
mutant("c20-accumulate-dict-memo", "C20", "itertools.py",
       "        async for head in item_iter:\n            value = await function(value, head)\n            yield value\n",
       "        memo = {}\n        async for head in item_iter:\n            value = await function(value, head)\n            memo[id(head)] = head\n            yield value\n",
       rule="R20.1", unit="itertools.accumulate")

# --------------------------------------------------------------------------- C15
mutant("c15-hoisted-recreate", "C15", "contextlib.py",
       "        @wraps(func)\n        async def inner(*args: Any, **kwds: Any) -> Any:\n            async with self._recreate_cm():\n",
       "        cm = self._recreate_cm()\n\n        @wraps(func)\n        async def inner(*args: Any, **kwds: Any) -> Any:\n            async with cm:\n",
       rule="R15.1")
mutant("c15-enter-self", "C15", "contextlib.py",
       "            async with self._recreate_cm():\n", "            async with self:\n", rule="R15.1")
mutant("c15-drops-kwargs", "C15", "contextlib.py",
       "                return await func(*args, **kwds)\n", "                return await func(*args)\n", rule="R15.1")
mutant("c15-swallows-errors", "C15", "contextlib.py",
       "            async with self._recreate_cm():\n                return await func(*args, **kwds)\n",
       "            try:\n                async with self._recreate_cm():\n                    return await func(*args, **kwds)\n            except Exception:\n                return None\n",
       rule="R15.1")
mutant("c15-result-dropped", "C15", "contextlib.py",
       "                return await func(*args, **kwds)\n", "                await func(*args, **kwds)\n", rule="R15.1")
mutant("c15-recreate-returns-self", "C15", "contextlib.py",
       "    def _recreate_cm(self):\n        return type(self)(*self.__recreate_args)\n",
       "    def _recreate_cm(self):\n        return self\n", rule="R15.2")
mutant("c15-recreate-removed", "C15", "contextlib.py",
       "    def _recreate_cm(self):\n        return type(self)(*self.__recreate_args)\n\n", "", rule="R15", optional=True)
mutant("c15-shared-generator", "C15", "contextlib.py",
       "        self.gen = func(*args, **kwds)\n        self.__recreate_args = func, args, kwds\n",
       "        self.gen = func(*args, **kwds) if not isinstance(func, _AsyncGeneratorContextManager) else func.gen\n        self.__recreate_args = self, (), {}\n",
       rule="R15.2")
mutant("c15-contextmanager-caches-instance", "C15", "contextlib.py",
       "    @wraps(func)\n    def helper(*args: Any, **kwds: Any) -> AsyncContextManager[T]:\n        return _AsyncGeneratorContextManager(func, args, kwds)\n",
       "    cache: Any = {}\n\n    @wraps(func)\n    def helper(*args: Any, **kwds: Any) -> AsyncContextManager[T]:\n        if args not in cache:\n            cache[args] = _AsyncGeneratorContextManager(func, args, kwds)\n        return cache[args]\n",
       rule="R15.3")

# --------------------------------------------------------------------------- C16
mutant("c16-stale-group-steps", "C16", "itertools.py",
       "        if state.current_group is not self:\n            raise StopAsyncIteration\n        await state.maybe_step()\n",
       "        await state.maybe_step()\n        if state.current_group is not self:\n            raise StopAsyncIteration\n",
       rule="R16.1")
mutant("c16-no-liveness-test", "C16", "itertools.py",
       "        if state.current_group is not self:\n            raise StopAsyncIteration\n        await state.maybe_step()\n",
       "        await state.maybe_step()\n", rule="R16.1")
mutant("c16-invalidate-after-await", "C16", "itertools.py",
       "        state.current_group = None\n        await state.maybe_step()\n        try:\n            target_key = state.target_key\n",
       "        await state.maybe_step()\n        state.current_group = None\n        try:\n            target_key = state.target_key\n",
       rule="R16.2")
mutant("c16-group-not-installed", "C16", "itertools.py",
       "        state.current_group = group = _Grouper(current_key, state)\n",
       "        group = _Grouper(current_key, state)\n", rule="R16.2")
mutant("c16-consume-any-key", "C16", "itertools.py",
       "        if self._target_key != state.current_key:\n            raise StopAsyncIteration\n        return state.consume_value()\n",
       "        return state.consume_value()\n", rule="R16.3")
mutant("c16-no-scan", "C16", "itertools.py",
       "            while state.current_key == target_key:\n                await state.step()\n",
       "            if state.current_key == target_key:\n                await state.step()\n", rule="R16.3")
mutant("c16-consume-keeps-item", "C16", "itertools.py",
       "        value, self._current_value = self._current_value, self._sentinel\n        return value\n",
       "        value = self._current_value\n        return value\n", rule="R16.3")
mutant("c16-maybe-step-always", "C16", "itertools.py",
       "        if self._current_value is self._sentinel:\n            await self.step()\n",
       "        await self.step()\n", rule="R16.3")
mutant("c16-step-publishes-early", "C16", "itertools.py",
       "        value = await anext(self._iterator)\n        key = await self._key_func(value)\n        self._current_value, self.current_key = value, key\n",
       "        value = await anext(self._iterator)\n        self._current_value = value\n        key = await self._key_func(value)\n        self.current_key = key\n",
       rule="R16.3")
mutant("c16-key-identity", "C16", "itertools.py",
       "        if self._target_key != state.current_key:\n", "        if self._target_key is not state.current_key:\n", rule="R16")
mutant("c16-scan-by-order", "C16", "itertools.py",
       "            while state.current_key == target_key:\n", "            while not (target_key < state.current_key):\n", rule="R16")
neutral("c16-liveness-positive-form", ["C16", "C04", "C06"], "itertools.py",
        "        if state.current_group is not self:\n            raise StopAsyncIteration\n        await state.maybe_step()\n",
        "        if state.current_group is self:\n            await state.maybe_step()\n        else:\n            raise StopAsyncIteration\n")

# --------------------------------------------------------------------------- C19
mutant("c19-await-each-gathers", "C19", "asynctools.py",
       "    for awaitable in awaitables:\n        yield await awaitable\n",
       "    results = [await awaitable for awaitable in awaitables]\n    for result in results:\n        yield result\n",
       rule="R19.1")
mutant("c19-await-each-prefetch", "C19", "asynctools.py",
       "    for awaitable in awaitables:\n        yield await awaitable\n",
       "    pending = None\n    for awaitable in awaitables:\n        if pending is not None:\n            yield pending[0]\n        pending = (await awaitable,)\n    if pending is not None:\n        yield pending[0]\n",
       rule="R19.1")
mutant("c19-any-iter-sync-branch-no-await", "C19", "asynctools.py",
       "        for item in iterable:\n            yield (\n                item if not isinstance(item, Awaitable) else await item\n            )  # pyright: ignore[reportReturnType]\n",
       "        for item in iterable:\n            yield item  # pyright: ignore[reportReturnType]\n", rule="R19.2")
mutant("c19-any-iter-outer-not-awaited", "C19", "asynctools.py",
       "    iterable = __iter if not isinstance(__iter, Awaitable) else await __iter\n",
       "    iterable = __iter\n", rule="R19.2")
mutant("c19-apply-skips-kwargs", "C19", "asynctools.py",
       "        *[await arg for arg in args], **{k: await arg for k, arg in kwargs.items()}\n",
       "        *[await arg for arg in args], **kwargs\n", rule="R19.3")
mutant("c19-apply-reversed", "C19", "asynctools.py",
       "        *[await arg for arg in args], **{k: await arg for k, arg in kwargs.items()}\n",
       "        *[await arg for arg in reversed(args)][::-1], **{k: await arg for k, arg in kwargs.items()}\n", rule="R19.3")
mutant("c19-sync-wraps-coroutine-functions", "C19", "asynctools.py",
       "    if iscoroutinefunction(function):\n        return function\n\n    @wraps(function)",
       "    @wraps(function)", rule="R19.4")
mutant("c19-sync-always-awaits", "C19", "asynctools.py",
       "        if isinstance(result, Awaitable):\n            return await result  # pyright: ignore[reportUnknownVariableType]\n        return result\n",
       "        return await result\n", rule="R19.4")
mutant("c19-sync-swallows", "C19", "asynctools.py",
       "        result = function(*args, **kwargs)\n        if isinstance(result, Awaitable):\n",
       "        try:\n            result = function(*args, **kwargs)\n        except Exception as exc:\n            result = exc\n        if isinstance(result, Awaitable):\n",
       rule="R19.4")

# --------------------------------------------------------------------------- C18
mutant("c18-enumerate-no-scope", "C18", "builtins.py", SCOPED_ENUM_OLD,
       "    count = start\n    async for item in aiter(iterable):\n        yield count, item\n        count += 1\n",
       rule="R18.1", unit="builtins.enumerate")
mutant("c18-merge-heap-before-try", "C18", "heapq.py",
       "    try:\n        # sortable iterators with position to ensure stable sort for ties:\n        # for equal heads, the iterable given first is yielded first in either direction\n        iter_heap: \"list[tuple[_KeyIter[Any], int]]\" = [\n            (itr, idx)\n            async for idx, itr in a_enumerate(\n                _KeyIter[Any].from_iters(iterators, reverse, a_key)\n            )\n        ]\n        _heapq.heapify(iter_heap)\n",
       "    iter_heap: \"list[tuple[_KeyIter[Any], int]]\" = [\n        (itr, idx)\n        async for idx, itr in a_enumerate(\n            _KeyIter[Any].from_iters(iterators, reverse, a_key)\n        )\n    ]\n    try:\n        _heapq.heapify(iter_heap)\n",
       rule="R18.1", unit="heapq.merge")
mutant("c18-tee-manual-lock", "C18", "itertools.py",
       "                async with lock:\n                    # Another peer produced an item while we were waiting for the lock.\n                    # Proceed with the next loop iteration to yield the item.\n                    if buffer:\n                        continue\n                    try:\n                        item = await iterator.__anext__()\n                    except StopAsyncIteration:\n                        break\n                    else:\n                        # Append to all buffers, including our own. We'll fetch our\n                        # item from the buffer again, instead of yielding it directly.\n                        # This ensures the proper item ordering if any of our peers\n                        # are fetching items concurrently. They may have buffered their\n                        # item already.\n                        for peer_buffer in peers:\n                            peer_buffer.append(item)\n",
       "                await lock.__aenter__()\n                if not buffer:\n                    try:\n                        item = await iterator.__anext__()\n                    except StopAsyncIteration:\n                        await lock.__aexit__(None, None, None)\n                        break\n                    else:\n                        for peer_buffer in peers:\n                            peer_buffer.append(item)\n                await lock.__aexit__(None, None, None)\n",
       rule="R18.2", unit="itertools.tee_peer")
mutant("c18-lru-store-on-cancel", "C18", "_lrucache.py",
       "            self.__misses += 1\n            result = await self.__wrapped__(*args, **kwargs)\n            # function finished early for another call with the same arguments\n            # the cache has been updated already, do nothing to it\n            if key not in self.__cache:\n                self.__cache[key] = result\n            return result\n",
       "            self.__misses += 1\n            try:\n                result = await self.__wrapped__(*args, **kwargs)\n            except BaseException:\n                self.__cache[key] = None\n                raise\n            if key not in self.__cache:\n                self.__cache[key] = result\n            return result\n",
       rule="R18.3")
mutant("c18-cached-property-publishes-on-cancel", "C18", "functools.py",
       "        value = await self._func(self._instance)\n        self._instance.__dict__[self._name] = AwaitableValue(value)\n        return value\n",
       "        value = None\n        try:\n            value = await self._func(self._instance)\n        finally:\n            self._instance.__dict__[self._name] = AwaitableValue(value)\n        return value\n",
       rule="R18.3")
mutant("c18-exitstack-except-exception", "C18", "contextlib.py",
       "            except BaseException as exc:  # noqa: B036\n", "            except Exception as exc:  # noqa: B036\n",
       rule="R18")
mutant("c18-scopediter-swallows-cancel", "C18", "_core.py",
       "        else:\n            await aclose\n", "        else:\n            await aclose\n        return exc_type is not None and exc_type.__name__ == 'CancelledError'\n",
       rule="R18.5")
mutant("c18-anext-catches-base", "C18", "builtins.py",
       "        return await iterator.__anext__()\n    except StopAsyncIteration:\n",
       "        return await iterator.__anext__()\n    except BaseException:\n", rule="R18.5")

# F17 / F18 reverted: a keyword argument meant for the user's callable collides with a parameter of the forwarding wrapper
mutant("c14-callback-keyword-collides", "C14", "contextlib.py",
       "    def callback(self, callback: C, /, *args: Any, **kwargs: Any) -> C:\n",
       "    def callback(self, callback: C, *args: Any, **kwargs: Any) -> C:\n", rule="R14.13", unit="contextlib.ExitStack.callback")
mutant("c10-bound-discard-self-by-keyword", "C10", "_lrucache.py",
       "    def cache_discard(self, /, *args: Any, **kwargs: Any) -> None:\n        return self._lru.cache_discard(self.__self__, *args, **kwargs)\n",
       "    def cache_discard(self, *args: Any, **kwargs: Any) -> None:\n        return self._lru.cache_discard(self.__self__, *args, **kwargs)\n",
       rule="R10.9")
mutant("c03-awaitify-call-self-by-keyword", "C03", "_core.py",
       "    def __call__(self, /, *args: Any, **kwargs: Any) -> Awaitable[T]:\n",
       "    def __call__(self, *args: Any, **kwargs: Any) -> Awaitable[T]:\n", rule="R03.13")
