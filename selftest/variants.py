"""Variant corpus: one textual edit each.  See runner.py."""

VARIANTS = []


def mutant(id, prop, file, old, new, rule=None, unit=None, **kw):
    VARIANTS.append(dict(id=id, prop=prop, file=file, old=old, new=new, rule=rule, unit=unit,
                         kind="mutant", **kw))


def neutral(id, props, file, old, new, **kw):
    VARIANTS.append(dict(id=id, props=props if isinstance(props, list) else [props], file=file,
                         old=old, new=new, kind="neutral", **kw))


# --------------------------------------------------------------------------- C17
mutant("c17-sleep-in-anext", "C17", "builtins.py",
       "    try:\n        return await iterator.__anext__()\n",
       "    try:\n        import asyncio\n        await asyncio.sleep(0)\n        return await iterator.__anext__()\n",
       rule="R17.3", unit="builtins.anext")
mutant("c17-asyncio-lock-default", "C17", "itertools.py",
       "lock=lock if lock is not None else NoLock(),",
       "lock=lock if lock is not None else __import__('asyncio').Lock(),",
       rule="R17.1")
mutant("c17-import-asyncio-lock", "C17", "itertools.py",
       "from collections import deque\n",
       "from collections import deque\nfrom asyncio import Lock as _Lock\n",
       rule="R17.1")
mutant("c17-awaitablevalue-yields", "C17", "functools.py",
       "        return self.value\n        yield  # type: ignore # pragma: no cover\n",
       "        yield  # type: ignore # pragma: no cover\n        return self.value\n",
       rule="R17.2", unit="functools.AwaitableValue.__await__")
mutant("c17-nolock-awaits", "C17", "itertools.py",
       "    async def __aenter__(self) -> None:\n        pass\n\n    async def __aexit__(self, exc_type: Any, exc_val: Any, exc_tb: Any) -> None:\n        return None\n\n\nasync def tee_peer(",
       "    async def __aenter__(self) -> None:\n        await identity(None)\n\n    async def __aexit__(self, exc_type: Any, exc_val: Any, exc_tb: Any) -> None:\n        return None\n\n\nasync def tee_peer(",
       rule="R17.4", unit="itertools.NoLock.__aenter__")
mutant("c17-time-sleep", "C17", "_core.py",
       "from inspect import iscoroutinefunction\n",
       "from inspect import iscoroutinefunction\nimport time\n",
       rule="R17.1")
mutant("c17-await-stdlib-value", "C17", "asynctools.py",
       "    for awaitable in awaitables:\n        yield await awaitable\n",
       "    for awaitable in awaitables:\n        yield await wraps(awaitable)\n",
       rule="R17.3", unit="asynctools.await_each")
neutral("c17-rename-local", ["C17"], "builtins.py",
        "        async for element in item_iter:\n            if not element:\n                return False\n",
        "        async for elem in item_iter:\n            if not elem:\n                return False\n")
neutral("c17-extra-stdlib-import", ["C17"], "heapq.py",
        "import heapq as _heapq\n", "import heapq as _heapq\nimport operator as _operator\n")
