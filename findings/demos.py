"""
Triage demonstrations for the defects the static checks reported on the pinned tree.
NOT part of any check (checks never execute /repo); kept as the record required for a
"genuine defect": each function shows the failing input against the real code.

  /venv/bin/python /verif/findings/demos.py            # all
  /venv/bin/python /verif/findings/demos.py F3 F8      # some

Prints  F<k>: DEFECT <observed>  or  F<k>: ok
"""
import asyncio
import heapq
import sys

sys.path.insert(0, "/repo")
import asyncstdlib as a  # noqa: E402


class Src:
    """class-based async iterator with an aclose counter; optional failure position"""

    def __init__(self, items, fail_at=None, exc=RuntimeError):
        self.items = list(items)
        self.i = 0
        self.closed = 0
        self.fail_at = fail_at
        self.exc = exc

    def __aiter__(self):
        return self

    async def __anext__(self):
        if self.fail_at is not None and self.i == self.fail_at:
            raise self.exc("boom")
        if self.i >= len(self.items):
            raise StopAsyncIteration
        self.i += 1
        return self.items[self.i - 1]

    async def aclose(self):
        self.closed += 1


class E:
    """equal-but-distinguishable item"""

    def __init__(self, key, tag):
        self.key, self.tag = key, tag

    def __lt__(self, other):
        return self.key < other.key

    def __eq__(self, other):
        return self.key == other.key

    __hash__ = None

    def __repr__(self):
        return f"{self.key}{self.tag}"


async def F1():
    start = []
    await a.sum([[1], [2]], start)
    return (start != [], f"start mutated to {start}")


async def F2():
    seen = []

    def k(x):
        seen.append(x)
        return x

    r = await a.max([], key=k, default="D")
    return (bool(seen), f"key called with default: {seen}, result {r!r}")


async def F3():
    x, y = E(1, "a"), E(1, "b")
    r = await a.max([x, y])
    r2 = await a.max([x, y], key=lambda e: e.key)
    return (r is not max([x, y]) or r2 is not max([x, y], key=lambda e: e.key), f"max -> {r}, keyed {r2}; stdlib {max([x, y])}")


async def F4():
    try:
        r = await a.sorted(iter([1, "a", 2]))
    except TypeError:
        return (False, "TypeError raised like the stdlib")
    return (True, f"returned {r!r} instead of raising TypeError")


async def F5():
    src = Src([1, 2])
    g = a.groupby(src)
    try:
        await g.aclose()
    except AttributeError as exc:
        return (True, f"aclose before first step raised {exc!r}; source closed={src.closed}")
    return (src.closed != 1, f"closed={src.closed}")


async def F6():
    src = Src([1, 2, 3])
    t = a.tee(src, 2)
    await t.aclose()
    src2 = Src([1, 2, 3])
    t2 = a.tee(src2, 2)
    await a.anext(t2[0])
    await t2.aclose()
    return (src.closed != 1 or src2.closed != 1, f"unstarted: closed={src.closed}; one child advanced: closed={src2.closed}")


async def F7():
    s1, s2, s3 = Src([1, 2]), Src([1], fail_at=0), Src([5])
    m = a.merge(s1, s2, s3)
    try:
        await a.anext(m)
    except RuntimeError:
        pass
    await m.aclose()
    return (s1.closed != 1 or s3.closed != 1, f"after failure of 2nd source: closed first={s1.closed} third={s3.closed}")


async def F8():
    data = [E(1, "a"), E(1, "b"), E(1, "c"), E(0, "d"), E(2, "e")]
    got = await a.nlargest(data, 3)
    want = heapq.nlargest(3, data)
    data2 = [E(0, "a"), E(0, "b"), E(1, "c"), E(0, "d"), E(1, "e"), E(1, "f")]
    got2 = await a.nsmallest(data2, 9)
    want2 = heapq.nsmallest(9, data2)
    bad = [x.tag for x in got] != [x.tag for x in want] or [x.tag for x in got2] != [x.tag for x in want2]
    return (bad, f"nlargest {got} vs {want}; nsmallest {got2} vs {want2}")


async def F9():
    A = [E(2, "a1"), E(1, "a2")]
    B = [E(2, "b1"), E(1, "b2")]
    got = await a.list(a.merge(A, B, reverse=True))
    want = list(heapq.merge(A, B, reverse=True))
    return ([x.tag for x in got] != [x.tag for x in want], f"{got} vs {want}")


async def F10():
    out = {}
    for name, fn in [("sum", a.sum), ("list", a.list), ("tuple", a.tuple), ("set", a.set), ("sorted", a.sorted)]:
        src = Src([1, 2, 3], fail_at=1)
        try:
            await fn(src)
        except RuntimeError:
            pass
        out[name] = src.closed
    src = Src([(1, 2), (3, 4)], fail_at=1)
    try:
        await a.dict(src)
    except RuntimeError:
        pass
    out["dict"] = src.closed
    return (any(v != 1 for v in out.values()), f"aclose counts after a failing source: {out}")


async def F11():
    calls = []
    async with a.ExitStack() as s:
        s.callback(lambda: calls.append(1))
        await s.aclose()
    return (len(calls) != 1, f"callback ran {len(calls)} times")


class Ends:
    """class-based async iterator that counts how often it is asked after it has ended"""

    def __init__(self, items):
        self.items, self.ends = list(items), 0

    def __aiter__(self):
        return self

    async def __anext__(self):
        if not self.items:
            self.ends += 1
            raise StopAsyncIteration
        return self.items.pop(0)


async def F12():
    out = {}
    for name, make, items in [
        ("dropwhile", lambda s: a.dropwhile(lambda x: True, s), [1, 2]),
        ("islice", lambda s: a.islice(s, 3, None), [1]),
        ("pairwise", lambda s: a.pairwise(s), []),
        ("zip strict", lambda s: a.zip(s, strict=True), []),
    ]:
        src = Ends(items)
        async for _ in make(src):
            pass
        out[name] = src.ends
    return (any(v != 1 for v in out.values()), f"end-of-source detections (itertools / zip: 1 each): {out}")


async def F13():
    def key(x):
        if x == 2:
            raise RuntimeError("key")
        return x
    src = Src([1, 2, 3])
    try:
        async for _k, group in a.groupby(src, key):
            async for _ in group:
                pass
    except RuntimeError:
        pass
    src2 = Src([1, 2, 3], fail_at=1)
    try:
        async for _k, _g in a.groupby(src2):
            pass
    except RuntimeError:
        pass
    return (src.closed != 1 or src2.closed != 1, f"aclose calls after groupby raised: key failed {src.closed}, source failed {src2.closed}")


async def F14():
    s1, s2 = Src([1, 2], fail_at=1), Src([3])
    try:
        async for _ in a.chain(s1, s2):
            pass
    except RuntimeError:
        pass
    return (s2.closed != 1, f"chain(s1, s2) after s1 raised: s1.closed={s1.closed}, s2.closed={s2.closed}")


async def F15():
    src = Src([1, 2])
    first, second = a.tee(src, 2)
    await first.aclose()
    async for _ in second:
        pass
    return (src.closed != 1, f"tee: child 0 closed unstarted, child 1 exhausted: source closed {src.closed} times")


async def F16():
    import itertools
    src = Ends([1])
    async for _ in a.batched(src, 2):
        pass

    class SyncEnds:
        def __init__(self, items):
            self.items, self.ends = list(items), 0

        def __iter__(self):
            return self

        def __next__(self):
            if not self.items:
                self.ends += 1
                raise StopIteration
            return self.items.pop(0)

    ref = SyncEnds([1])
    if hasattr(itertools, "batched"):
        for _ in itertools.batched(ref, 2):
            pass
    return (src.ends != ref.ends, f"batched(<1 item>, 2): end-of-source detections asyncstdlib {src.ends}, itertools {ref.ends}")


async def F17():
    got = []

    def cb(**kw):
        got.append(kw)
    try:
        async with a.ExitStack() as stack:
            stack.callback(cb, callback=1, self=2)
    except TypeError as exc:
        return True, f"ExitStack.callback(cb, callback=1, self=2): {exc} (contextlib's stacks call cb(callback=1, self=2))"
    return (got != [{"callback": 1, "self": 2}], f"callback received {got}")


async def F18():
    @a.lru_cache
    async def f(self, x):
        return (self, x)
    try:
        got = await f(self=1, x=2)
        f.cache_discard(self=1, x=2)
    except TypeError as exc:
        return True, f"cached f(self=1, x=2): {exc} (functools.lru_cache accepts the call)"
    return (got != (1, 2), f"f(self=1, x=2) -> {got}")


async def F16C06():
    """F16 seen from C06: a source that fails at the request the stdlib's batched makes after a short final batch"""
    import itertools

    class Fails:
        def __init__(self):
            self.n = self.ends = 0

        def __iter__(self):
            return self

        def __aiter__(self):
            return self

        def __next__(self):
            self.n += 1
            if self.n == 1:
                return "x0"
            self.ends += 1
            if self.ends == 2:
                raise RuntimeError("second end-of-source request")
            raise StopIteration

        async def __anext__(self):
            try:
                return self.__next__()
            except StopIteration:
                raise StopAsyncIteration from None

    if not hasattr(itertools, "batched"):
        return False, "itertools.batched not available"
    try:
        list(itertools.batched(Fails(), 2))
        ref = "ends"
    except RuntimeError:
        ref = "raises"
    try:
        [b async for b in a.batched(Fails(), 2)]
        got = "ends"
    except RuntimeError:
        got = "raises"
    return (got != ref, f"batched(<1 item, failing at its second end-of-source request>, 2): itertools {ref}, asyncstdlib {got}")


ALL = [F1, F2, F3, F4, F5, F6, F7, F8, F9, F10, F11, F12, F13, F14, F15, F16, F16C06, F17, F18]


def main():
    want = set(sys.argv[1:])
    for fn in ALL:
        if want and fn.__name__ not in want:
            continue
        try:
            bad, msg = asyncio.run(fn())
        except Exception as exc:  # noqa: BLE001
            bad, msg = True, f"unexpected {exc!r}"
        print(f"{fn.__name__}: {'DEFECT' if bad else 'ok'} {msg}")


if __name__ == "__main__":
    main()
