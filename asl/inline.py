"""
Inlined views of functions ("un-extract method").

Path rules (ownership/cleanup coverage, cache path enumeration, typestate of the tee
children, ...) are stated on one function body.  A behaviour-preserving refactoring that
moves a block into a *private helper* of the same module would hide that block from such a
rule; instead of teaching every rule about helpers, a rule may ask for the inlined view of
its anchor function: a synthetic copy of the function in which calls of private library
helpers are replaced by the helper's body,

    await _helper(a, b)          ->   <body of _helper with its parameters bound to a, b>
    x = self._helper(a)          ->   <body; every `return v` becomes `x = v` (+ leave)>
    return await self.__h(k)     ->   <body; its returns stay returns>
    if await _helper(a): ...     ->   <body; tmp = v>; if tmp: ...

The transformation is purely syntactic and only done where it is obviously semantics
preserving (Python evaluates the call's arguments, then runs the body):

* the callee is a plain function / coroutine of the package (no generator, property,
  overload, decorator other than staticmethod/classmethod), is not recursive, and was
  selected by the rule's policy (default: its name is private); a callee from another module
  is only inlined if every global name it mentions resolves to the same object from the
  caller's module;
* the call is the first thing the statement evaluates, it is awaited iff the callee is a
  coroutine, it passes no ``*``/``**`` arguments and every parameter can be bound;
* no name capture is possible (callee locals are renamed apart, callee globals are not
  shadowed by caller locals, no nonlocal/global statements, no class-private names across
  classes);
* ``return`` inside a loop of the callee is only supported in tail position.

Anything else is left as the call it was — a rule then sees what it saw before.  Statements
keep the line numbers of the helper they came from, so reports point at the real source.
"""
from __future__ import annotations

import ast
import copy
from typing import Callable, Dict, List, Optional, Set, Tuple

from .loader import Unit, iter_nested_scopes, local_names, own_nodes, unit_kind

MAX_DEPTH = 4


def default_policy(target: Unit) -> bool:
    name = target.qualname.rsplit(".", 1)[-1]
    return name.startswith("_") and not (name.startswith("__") and name.endswith("__"))


def private_class_policy(target: Unit) -> bool:
    """Also methods of private classes (``_GroupByState.step``)."""
    if default_policy(target):
        return True
    name = target.qualname.rsplit(".", 1)[-1]
    return target.cls is not None and target.cls.name.startswith("_") and not name.startswith("__")


class _Rename(ast.NodeTransformer):
    """Rename / substitute names of the callee (all scopes: nested scopes that capture a
    renamed local keep referring to it)."""

    def __init__(self, names: Dict[str, str], subst: Dict[str, ast.AST]):
        self.names = names
        self.subst = subst

    def visit_Name(self, node: ast.Name):
        if node.id in self.subst and isinstance(node.ctx, ast.Load):
            return copy.deepcopy(self.subst[node.id])
        if node.id in self.names:
            return ast.copy_location(ast.Name(id=self.names[node.id], ctx=node.ctx), node)
        return node

    def visit_ExceptHandler(self, node: ast.ExceptHandler):
        self.generic_visit(node)
        if node.name and node.name in self.names:
            node.name = self.names[node.name]
        return node

    def visit_arg(self, node: ast.arg):
        return node


class Inliner:
    def __init__(self, pkg, vals, policy: Callable[[Unit], bool] = default_policy, keep: Tuple[str, ...] = ()):
        self.pkg = pkg
        self.vals = vals
        self.policy = policy
        self.keep = set(keep)
        self.counter = 0
        self.log: List[str] = []

    # ------------------------------------------------------------------ public
    def view(self, unit: Unit) -> Unit:
        if isinstance(unit.node, (ast.Lambda, ast.GeneratorExp)):
            return unit
        self.caller = unit
        self.caller_locals = set(local_names(unit))
        node = copy.deepcopy(unit.node)
        changed = [False]
        node.body = self._block(node.body, unit, (unit.fq,), 0, changed)
        for _round in range(3):
            again = False
            if _unalias_fields(node, unit):
                changed[0] = again = True
            if _inline_properties(node, self.pkg):
                changed[0] = again = True
            if not again:
                break
            # a receiver that was a renamed local (``state__i1.helper()``) reads as the field it stands for now: the calls
            # the first pass could not resolve may be resolvable
            more = [False]
            node = copy.deepcopy(node)  # (fresh nodes: the origin analysis remembers what it said about a node object)
            node.body = self._block(node.body, unit, (unit.fq,), 0, more)
            if not more[0]:
                break
            changed[0] = True
        if not changed[0]:
            return unit
        ast.fix_missing_locations(node)
        view = Unit(unit.module, unit.qualname, node, unit_kind(node), unit.cls, unit.parent, list(unit.decorators))
        view.__dict__["inlined_from"] = unit
        view.__dict__["inlined_helpers"] = list(self.log)
        _register_nested(unit.module, node, unit.qualname, unit.cls, view)
        return view

    # ------------------------------------------------------------------ blocks
    def _block(self, body: List[ast.stmt], scope: Unit, stack: Tuple[str, ...], depth: int, changed) -> List[ast.stmt]:
        out: List[ast.stmt] = []
        for st in body:
            out.extend(self._stmt(st, scope, stack, depth, changed))
        return out

    def _stmt(self, st: ast.stmt, scope: Unit, stack, depth, changed) -> List[ast.stmt]:
        if isinstance(st, (ast.FunctionDef, ast.AsyncFunctionDef, ast.ClassDef)):
            return [st]
        st = self._loop_test_as_statements(st, scope)
        # compound statements: recurse into their blocks
        for fld in ("body", "orelse", "finalbody"):
            blk = getattr(st, fld, None)
            if isinstance(blk, list) and blk and isinstance(blk[0], ast.stmt):
                setattr(st, fld, self._block(blk, scope, stack, depth, changed))
        if isinstance(st, ast.Try):
            for h in st.handlers:
                h.body = self._block(h.body, scope, stack, depth, changed)
        if depth >= MAX_DEPTH:
            return [st]
        unfolded = self._unfold_context_class(st, scope)
        if unfolded is not None:
            changed[0] = True
            return self._block(unfolded, scope, stack, depth + 1, changed)
        site = None
        for cand in self._sites(st):
            t, r = self._target(cand[0], cand[1], scope)
            if t is not None and t.fq not in stack:
                site, target, recv = cand, t, r
                break
        if site is None:
            return [st]
        call, awaited, holder, fld = site
        expansion = self._expand(st, call, awaited, holder, fld, target, recv)
        if expansion is None:
            return [st]
        changed[0] = True
        self.log.append(target.short)
        # helpers called by the helper
        return self._block(expansion, scope, stack + (target.fq,), depth + 1, changed)

    def _unfold_context_class(self, st: ast.stmt, scope: Unit) -> Optional[List[ast.stmt]]:
        """``async with _Private(a, b): BODY`` where the private library class only stores its constructor arguments, does
        nothing on entering and holds its clean-up in ``__aexit__``  ->  ``try: BODY finally: <that clean-up>`` with the
        fields replaced by the arguments (the reverse of "extract the finally block into a context manager")."""
        if not isinstance(st, ast.AsyncWith) or len(st.items) != 1 or st.items[0].optional_vars is not None:
            return None
        cm = st.items[0].context_expr
        if not isinstance(cm, ast.Call) or cm.keywords or any(isinstance(a, ast.Starred) for a in cm.args):
            return None
        func = cm.func.value if isinstance(cm.func, ast.Subscript) else cm.func  # ``Cls[T](...)``
        if not isinstance(func, ast.Name) or not func.id.startswith("_"):
            return None
        r = self.pkg.resolve_global(scope.module, func.id)
        info = self.pkg.lib_class(r.qual) if r.kind == "lib" else None
        if info is None:
            return None
        init, aenter, aexit = info.methods.get("__init__"), info.methods.get("__aenter__"), info.methods.get("__aexit__")
        if init is None or aenter is None or aexit is None or aexit.kind != "coroutine" or set(info.methods) - {
                "__init__", "__aenter__", "__aexit__", "__repr__"}:
            return None
        params = init.param_names()
        if len(params) - 1 != len(cm.args) or not all(isinstance(a, (ast.Name, ast.Attribute)) for a in cm.args):
            return None
        # __init__: nothing but ``self.f = p``
        fields: Dict[str, ast.AST] = {}
        for s_ in init.node.body:
            if isinstance(s_, ast.Expr) and isinstance(s_.value, ast.Constant):
                continue
            tgt = s_.targets[0] if isinstance(s_, ast.Assign) and len(s_.targets) == 1 else s_.target if isinstance(s_, ast.AnnAssign) else None
            val = getattr(s_, "value", None)
            if not (isinstance(tgt, ast.Attribute) and isinstance(tgt.value, ast.Name) and tgt.value.id == params[0]
                    and isinstance(val, ast.Name) and val.id in params[1:]):
                return None
            fields[tgt.attr] = cm.args[params.index(val.id) - 1]
        # __aenter__: a docstring and ``return None`` / ``pass`` at most
        for s_ in aenter.node.body:
            if isinstance(s_, ast.Pass) or (isinstance(s_, ast.Expr) and isinstance(s_.value, ast.Constant)):
                continue
            if isinstance(s_, ast.Return) and (s_.value is None or (isinstance(s_.value, ast.Constant) and s_.value.value is None)):
                continue
            return None
        me = aexit.param_names()[0]
        others = set(aexit.param_names()[1:])
        body = copy.deepcopy([s_ for s_ in aexit.node.body if not (isinstance(s_, ast.Expr) and isinstance(s_.value, ast.Constant))])
        # the exception details may not be used, and the exit may not suppress (return nothing but None, at its very end)
        for s_ in body:
            for x in ast.walk(s_):
                if isinstance(x, ast.Name) and x.id in others:
                    return None
                if isinstance(x, ast.Return) and x is not body[-1]:
                    return None
        if body and isinstance(body[-1], ast.Return):
            last = body.pop()
            if not (last.value is None or (isinstance(last.value, ast.Constant) and last.value.value is None)):
                return None
        self.counter += 1
        tag = f"__x{self.counter}"
        own_locals = {x.id for s_ in body for x in ast.walk(s_) if isinstance(x, ast.Name) and isinstance(x.ctx, ast.Store)}

        class _Subst(ast.NodeTransformer):
            def visit_Attribute(self_, n):  # noqa: N805
                self_.generic_visit(n)
                if isinstance(n.value, ast.Name) and n.value.id == me and n.attr in fields and isinstance(n.ctx, ast.Load):
                    return ast.copy_location(copy.deepcopy(fields[n.attr]), n)
                return n

            def visit_Name(self_, n):  # noqa: N805
                if n.id in own_locals:
                    return ast.copy_location(ast.Name(id=n.id + tag, ctx=n.ctx), n)
                return n

        body = [_Subst().visit(s_) for s_ in body]
        if any(isinstance(x, ast.Name) and x.id == me for s_ in body for x in ast.walk(s_)):
            return None  # (the object itself is used: not a plain bundle of its arguments)
        # ``own = self._buffer`` became ``own__x1 = buffer``: a local that only renames an argument is the argument
        while body and isinstance(body[0], ast.Assign) and len(body[0].targets) == 1 and isinstance(body[0].targets[0], ast.Name) \
                and isinstance(body[0].value, ast.Name):
            alias, original = body[0].targets[0].id, body[0].value.id
            rest = body[1:]
            if any(isinstance(x, ast.Name) and x.id in (alias, original) and isinstance(x.ctx, (ast.Store, ast.Del))
                   for s_ in rest for x in ast.walk(s_)):
                break
            for s_ in rest:
                for x in ast.walk(s_):
                    if isinstance(x, ast.Name) and x.id == alias:
                        x.id = original
            body = rest
        out = ast.copy_location(ast.Try(body=st.body, handlers=[], orelse=[], finalbody=body or [ast.Pass()]), st)
        ast.fix_missing_locations(out)
        self.log.append(f"{info.module.short}.{info.name}.__aexit__")
        return [out]

    def _loop_test_as_statements(self, st: ast.stmt, scope: Unit) -> ast.stmt:
        """``while A or await helper(..): body`` (helper inlinable) -> the same loop with the test spelled as
        statements, so that the helper call is a statement of its own:

            while True:
                if not (A):
                    c = await helper(..)
                    if not c: break
                body
        """
        if not isinstance(st, ast.While) or st.orelse:
            return st
        test = st.test
        first: Optional[ast.AST] = None
        last = test
        if isinstance(test, ast.BoolOp) and isinstance(test.op, ast.Or) and len(test.values) == 2:
            first, last = test.values
        negate = False
        while isinstance(last, ast.UnaryOp) and isinstance(last.op, ast.Not):
            last, negate = last.operand, not negate
        call = last.value if isinstance(last, ast.Await) else last
        if not isinstance(call, ast.Call):
            return st
        t, _r = self._target(call, isinstance(last, ast.Await), scope)
        if t is None:
            return st
        self.counter += 1
        name = f"__cond__i{self.counter}"
        assign = ast.copy_location(ast.Assign(targets=[ast.Name(id=name, ctx=ast.Store())], value=last), st)
        cond = ast.Name(id=name, ctx=ast.Load())
        leave = ast.copy_location(ast.If(test=cond if negate else ast.UnaryOp(op=ast.Not(), operand=cond),
                                         body=[ast.copy_location(ast.Break(), st)], orelse=[]), st)
        head: List[ast.stmt] = [assign, leave]
        if first is not None:
            head = [ast.copy_location(ast.If(test=ast.UnaryOp(op=ast.Not(), operand=first), body=head, orelse=[]), st)]
        new = ast.copy_location(ast.While(test=ast.Constant(value=True), body=head + list(st.body), orelse=[]), st)
        ast.fix_missing_locations(new)
        self.caller_locals.add(name)
        return new

    # ------------------------------------------------------------------ sites
    def _sites(self, st: ast.stmt):
        """Candidate call sites of ``st`` in evaluation order, each as (call, awaited, holder, field)
        where ``setattr(holder, field, x)`` / ``holder[field] = x`` replaces the (awaited) call:
        the expression the statement evaluates first, then — through a call whose callee is a plain
        name / attribute chain — its first argument, and so on."""
        if isinstance(st, ast.Expr):
            holder, fld = st, "value"
        elif isinstance(st, ast.Return) and st.value is not None:
            holder, fld = st, "value"
        elif isinstance(st, ast.Assign) and len(st.targets) == 1 and _pure_target(st.targets[0]):
            holder, fld = st, "value"
        elif isinstance(st, ast.AnnAssign) and st.value is not None and _pure_target(st.target):
            holder, fld = st, "value"
        elif isinstance(st, ast.AugAssign) and isinstance(st.target, ast.Name):
            # ``local += f(...)``: the local is read first, but nothing f does can rebind it
            holder, fld = st, "value"
        elif isinstance(st, ast.If):
            holder, fld = st, "test"
        else:
            return []
        out = []
        e = getattr(holder, fld)
        for _ in range(4):
            while isinstance(e, ast.UnaryOp) and isinstance(e.op, ast.Not):
                holder, fld, e = e, "operand", e.operand
            if isinstance(e, ast.Await) and isinstance(e.value, ast.Call):
                out.append((e.value, True, holder, fld))
                call = e.value
            elif isinstance(e, ast.Call):
                out.append((e, False, holder, fld))
                call = e
            else:
                break
            # the callee expression is a pure lookup: the first argument is evaluated next
            if not _is_field_chain(call.func) or not call.args or isinstance(call.args[0], ast.Starred):
                break
            holder, fld, e = call.args, 0, call.args[0]
        return out

    def _site(self, st: ast.stmt):
        sites = self._sites(st)
        return sites[0] if sites else None

    def _target(self, call: ast.Call, awaited: bool, scope: Unit):
        if any(isinstance(a, ast.Starred) for a in call.args) or any(k.arg is None for k in call.keywords):
            return None, None
        try:
            fv = self.vals.expr(self.caller, call.func, None)
        except Exception:  # noqa: BLE001
            return None, None
        cands = []
        for f in fv:
            if f[0] == "libfn":
                t = self.pkg.lib_unit(f[1])
                cands.append((t, None))
            elif f[0] == "bound":
                t = self.vals.find_method(f[1], f[2])
                cands.append((t, call.func.value if isinstance(call.func, ast.Attribute) else None))
            else:
                return None, None
        if len(cands) != 1:
            return None, None
        t, recv = cands[0]
        if t is None or t.is_overload() or t.is_property():
            return None, None
        if t.kind != ("coroutine" if awaited else "sync"):
            return None, None
        if set(t.decorators) - {"staticmethod", "classmethod"}:
            return None, None
        if t.short in self.keep or t.qualname.rsplit(".", 1)[-1] in self.keep:
            return None, None
        if not self.policy(t) and not self._internal_module_helper(t):
            return None, None
        if t.parent is not None:
            return None, None  # closures capture their environment
        if recv is not None and t.is_static():
            recv = None
        elif recv is None and t.cls is not None and not t.is_static():
            return None, None  # unbound method called through the class
        return t, recv

    def _internal_module_helper(self, t: Unit) -> bool:
        """A plain function of a private module (``_core``, ``_utility``) that is not part of
        the package's public API: an internal helper whatever its name."""
        if not t.module.short.startswith("_") or t.cls is not None or t.kind != "coroutine":
            return False  # (sync functions of _core such as aiter/awaitify are the library's vocabulary)
        try:
            return not self.pkg._is_public(t)
        except Exception:  # noqa: BLE001
            return False

    # ------------------------------------------------------------------ expansion
    def _expand(self, st, call, awaited, holder, fld, target: Unit, recv) -> Optional[List[ast.stmt]]:
        fn = target.node
        a = fn.args
        if a.vararg is not None or a.kwarg is not None:
            return None
        for n in own_nodes(fn):
            if isinstance(n, (ast.Global, ast.Nonlocal, ast.Yield, ast.YieldFrom)):
                return None
        t_locals = set(local_names(target))
        # every occurrence of a callee local is renamed consistently in all nested scopes (safe:
        # the new name is fresh); only parameters of nested functions are left alone
        for sub in ast.walk(fn):
            if sub is fn:
                continue
            if isinstance(sub, (ast.FunctionDef, ast.AsyncFunctionDef, ast.Lambda)):
                bound = {x.arg for x in ast.walk(sub.args) if isinstance(x, ast.arg)}
                if bound & t_locals:
                    return None
        # free (global) names of the callee must mean the same thing in the caller
        # (annotations of parameters, results and locals are never evaluated by the inlined body)
        unevaluated: set = set()
        for x in ast.walk(fn):
            anns = [x.annotation] if isinstance(x, (ast.arg, ast.AnnAssign)) and x.annotation is not None else \
                [x.returns] if isinstance(x, (ast.FunctionDef, ast.AsyncFunctionDef)) and x.returns is not None else []
            for ann in anns:
                unevaluated |= {id(y) for y in ast.walk(ann)}
        free = {x.id for x in ast.walk(fn) if isinstance(x, ast.Name) and id(x) not in unevaluated} - t_locals
        if free & self.caller_locals:
            return None
        if target.module is not self.caller.module:
            # a helper of another module: every global it mentions must denote the same
            # object when looked up from the caller's module
            for name in free:
                r1 = self.pkg.resolve_global(target.module, name)
                r2 = self.pkg.resolve_global(self.caller.module, name)
                if r1.kind in ("unknown", "value", "instance") or (r1.kind, r1.qual) != (r2.kind, r2.qual):
                    return None
        # class-private names only within the same class
        if target.cls is not self.caller.cls:
            for x in ast.walk(fn):
                nm = x.attr if isinstance(x, ast.Attribute) else x.id if isinstance(x, ast.Name) else ""
                if nm.startswith("__") and not nm.endswith("__"):
                    return None
        # ---- bind parameters
        params = list(a.posonlyargs) + list(a.args)
        kwonly = list(a.kwonlyargs)
        pos_defaults = dict(zip([p.arg for p in params][len(params) - len(a.defaults):], a.defaults))
        kw_defaults = {p.arg: d for p, d in zip(kwonly, a.kw_defaults) if d is not None}
        bind: Dict[str, ast.AST] = {}
        names = [p.arg for p in params]
        if recv is not None:
            if not names:
                return None
            bind[names[0]] = recv
            names = names[1:]
        if len(call.args) > len(names):
            return None
        for pname, arg in zip(names, call.args):
            bind[pname] = arg
        for kw in call.keywords:
            if kw.arg in bind or kw.arg not in set(names) | {p.arg for p in kwonly}:
                return None
            bind[kw.arg] = kw.value
        for pname in names + [p.arg for p in kwonly]:
            if pname not in bind:
                d = pos_defaults.get(pname, kw_defaults.get(pname))
                if d is None:
                    return None
                if not isinstance(d, ast.Constant):
                    return None  # defaults are evaluated at definition time in the callee's module
                bind[pname] = d
        self.counter += 1
        tag = f"__i{self.counter}"
        rebound = {x.id for x in own_nodes(fn) if isinstance(x, ast.Name) and isinstance(x.ctx, (ast.Store, ast.Del))}
        for x in own_nodes(fn):
            if isinstance(x, ast.ExceptHandler) and x.name:
                rebound.add(x.name)
        subst: Dict[str, ast.AST] = {}
        rename: Dict[str, str] = {n: n + tag for n in t_locals}
        pre: List[ast.stmt] = []
        order = [p.arg for p in params] + [p.arg for p in kwonly]
        for pname in order:
            val = bind[pname]
            simple = isinstance(val, (ast.Name, ast.Constant)) and pname not in rebound
            if not simple and pname not in rebound and target.kind == "sync" and _is_field_chain(val):
                # ``self.x`` handed to a synchronous helper: nothing can rebind the field while the
                # helper runs, so reading it at each use is the same as reading it once
                simple = True
            if isinstance(val, ast.Name) and val.id in rebound - {pname} and val.id in t_locals:
                simple = False
            if simple:
                subst[pname] = val
                rename.pop(pname, None)
            else:
                asg = ast.Assign(targets=[ast.Name(id=pname + tag, ctx=ast.Store())], value=copy.deepcopy(val))
                pre.append(ast.copy_location(asg, call))
        # a substituted caller name must not be assigned by the callee body under another role
        body = [_Rename(rename, subst).visit(copy.deepcopy(s)) for s in fn.body]
        # drop the docstring
        if body and isinstance(body[0], ast.Expr) and isinstance(body[0].value, ast.Constant) and isinstance(body[0].value.value, str):
            body = body[1:]
        if not body:
            body = [ast.copy_location(ast.Pass(), call)]
        returns = [r for r in _own_returns(body)]
        # ---- place the result
        exact_tail = isinstance(st, ast.Return) and holder is st
        if exact_tail:
            if not _ends_in_return(body):
                body.append(ast.copy_location(ast.Return(value=ast.Constant(value=None)), call))
            return pre + body
        if isinstance(st, ast.Return):
            # ``return not <call>``: the (pure) context moves into every return of the callee
            hole = "__asl_hole__"
            _put(holder, fld, ast.Name(id=hole, ctx=ast.Load()))
            template = st.value

            def wrap(r: ast.Return) -> List[ast.stmt]:
                value = r.value if r.value is not None else ast.Constant(value=None)
                filled = _Rename({}, {hole: value}).visit(copy.deepcopy(template))
                return [ast.copy_location(ast.Return(value=filled), r)]

            body = _replace_returns(body, wrap)
            if not _ends_in_return(body):
                body.extend(wrap(ast.copy_location(ast.Return(value=None), call)))
            return pre + body
        result_used = not (isinstance(st, ast.Expr) and holder is st)
        direct = isinstance(st, (ast.Assign,)) and holder is st and isinstance(st.targets[0], ast.Name) \
            and st.targets[0].id not in {x.id for x in ast.walk(call) if isinstance(x, ast.Name)}
        if result_used and not direct:
            ret_name = f"__ret{tag}"
        elif direct:
            ret_name = st.targets[0].id
        else:
            ret_name = None
        single_final = len(returns) == 0 or (len(returns) == 1 and body and body[-1] is returns[0])

        def result_store(value: Optional[ast.AST], at: ast.AST) -> List[ast.stmt]:
            if ret_name is None:
                if value is None or isinstance(value, (ast.Constant, ast.Name)):
                    return []
                return [ast.copy_location(ast.Expr(value=value), at)]
            v = value if value is not None else ast.Constant(value=None)
            return [ast.copy_location(ast.Assign(targets=[ast.Name(id=ret_name, ctx=ast.Store())], value=v), at)]

        if single_final:
            if returns:
                body = body[:-1] + result_store(returns[0].value, returns[0])
            elif ret_name is not None:
                body = body + result_store(None, call)
            new_body = body or [ast.copy_location(ast.Pass(), call)]
        else:
            body = _replace_returns(body, lambda r: result_store(r.value, r) + [_inline_return(r)])
            if not _ends_in_jump(body):
                body = body + result_store(None, call) + [_inline_return(call)]
            loop = ast.While(test=ast.Constant(value=True), body=body, orelse=[])
            loop.asl_once = True  # a block that is left by ``break``, never iterated
            new_body = [ast.copy_location(loop, call)]
        out = pre + new_body
        if direct or not result_used:
            return out
        # the statement itself, with the call replaced by the result variable
        ref = ast.copy_location(ast.Name(id=ret_name, ctx=ast.Load()), call)
        _put(holder, fld, ref)
        return out + [st]


# ---------------------------------------------------------------------- helpers
def _put(holder, fld, value) -> None:
    if isinstance(holder, list):
        holder[fld] = value
    else:
        setattr(holder, fld, value)


def _pure_target(t: ast.AST) -> bool:
    """an assignment target whose evaluation has no side effect (a name or a field chain)"""
    return isinstance(t, ast.Name) or (isinstance(t, ast.Attribute) and _is_field_chain(t))


def _inline_return(at: ast.AST) -> ast.Break:
    b = ast.copy_location(ast.Break(), at)
    b.asl_inline_return = True  # leaves the inlined block (asl.cfg), whatever loops it sits in
    return b


def _simple_properties(pkg) -> Dict[str, Tuple[str, ast.AST]]:
    """attribute name -> (name of self, returned expression) for the read-only properties of private library classes
    whose body is one ``return <expression>`` without calls, awaits or walruses, where the attribute name means nothing
    else in the package (no second class defines it, nothing stores to it)."""
    cached = pkg.__dict__.get("_simple_props")
    if cached is not None:
        return cached
    found: Dict[str, List[Tuple[str, ast.AST]]] = {}
    other: Set[str] = set()
    for m in pkg.modules.values():
        for x in ast.walk(m.tree):
            if isinstance(x, ast.Attribute) and isinstance(x.ctx, (ast.Store, ast.Del)):
                other.add(x.attr)
        for info in m.classes.values():
            for st in info.node.body:
                if isinstance(st, (ast.FunctionDef, ast.AsyncFunctionDef)):
                    decos = [ast.unparse(d).split(".")[-1] for d in st.decorator_list]
                    body = [b for b in st.body if not (isinstance(b, ast.Expr) and isinstance(b.value, ast.Constant))]
                    if decos == ["property"] and isinstance(st, ast.FunctionDef) and info.name.startswith("_") \
                            and len(body) == 1 and isinstance(body[0], ast.Return) \
                            and body[0].value is not None and len(st.args.args) == 1 \
                            and not any(isinstance(y, (ast.Call, ast.Await, ast.NamedExpr, ast.Yield, ast.Lambda)) for y in ast.walk(body[0].value)):
                        found.setdefault(st.name, []).append((st.args.args[0].arg, body[0].value))
                    else:
                        other.add(st.name)
                elif isinstance(st, (ast.Assign, ast.AnnAssign)):
                    for t in (st.targets if isinstance(st, ast.Assign) else [st.target]):
                        if isinstance(t, ast.Name):
                            other.add(t.id)
            other.update(info.slots or [])
    out = {k: v[0] for k, v in found.items() if len(v) == 1 and k not in other}
    pkg.__dict__["_simple_props"] = out
    return out


def _inline_properties(node: ast.AST, pkg) -> bool:
    """``state.has_value`` -> the expression the property returns, with ``self`` replaced by ``state`` (a plain name or
    attribute chain, so evaluating it more than once changes nothing)."""
    props = _simple_properties(pkg)
    if not props:
        return False
    changed = [False]

    def plain(e: ast.AST) -> bool:
        return isinstance(e, ast.Name) or (isinstance(e, ast.Attribute) and plain(e.value))

    class T(ast.NodeTransformer):
        def visit_Attribute(self, a: ast.Attribute):
            self.generic_visit(a)
            if isinstance(a.ctx, ast.Load) and a.attr in props and plain(a.value):
                me, expr = props[a.attr]
                new = _Rename({}, {me: a.value}).visit(copy.deepcopy(expr))
                changed[0] = True
                return ast.copy_location(new, a)
            return a
    T().visit(node)
    return changed[0]


def _unalias_fields(node: ast.AST, unit: Unit) -> bool:
    """``cache = self._cache`` ... ``cache[key]``: a local that is bound once, to a field of ``self`` that no method but
    ``__init__`` ever re-binds, is the field under another name; its loads are replaced by the field expression so that
    rules keyed to the field see through the alias.  True if anything was replaced."""
    if unit.cls is None or not isinstance(node, (ast.FunctionDef, ast.AsyncFunctionDef)):
        return False
    args = node.args
    params = {a.arg for a in list(args.posonlyargs) + list(args.args) + list(args.kwonlyargs)}
    if args.vararg:
        params.add(args.vararg.arg)
    if args.kwarg:
        params.add(args.kwarg.arg)
    me = (list(args.posonlyargs) + list(args.args))[0].arg if (args.posonlyargs or args.args) else None
    if me is None:
        return False
    stores: Dict[str, List[ast.AST]] = {}
    for x in ast.walk(node):
        if isinstance(x, ast.Name) and isinstance(x.ctx, (ast.Store, ast.Del)):
            stores.setdefault(x.id, []).append(x)
        elif isinstance(x, (ast.Global, ast.Nonlocal)):
            for n_ in x.names:
                stores.setdefault(n_, []).extend([x, x])
        elif isinstance(x, ast.ExceptHandler) and x.name:
            stores.setdefault(x.name, []).extend([x, x])

    def rebound_elsewhere(attr: str) -> bool:
        for mname, m in unit.cls.methods.items():
            for x in ast.walk(m.node):
                if isinstance(x, ast.Attribute) and isinstance(x.ctx, (ast.Store, ast.Del)) and x.attr == attr \
                        and isinstance(x.value, ast.Name) and mname != "__init__":
                    return True
        return False

    aliases: Dict[str, ast.AST] = {}
    for st in ast.walk(node):
        if isinstance(st, ast.Assign) and len(st.targets) == 1 and isinstance(st.targets[0], ast.Name):
            name, val = st.targets[0].id, st.value
        elif isinstance(st, ast.AnnAssign) and isinstance(st.target, ast.Name) and st.value is not None:
            name, val = st.target.id, st.value
        else:
            continue
        if name in params or len(stores.get(name, [])) != 1:
            continue
        if isinstance(val, ast.Attribute) and isinstance(val.value, ast.Name) and val.value.id == me \
                and len(stores.get(me, [])) == 0 and not rebound_elsewhere(val.attr) \
                and val.attr not in unit.cls.methods:  # (a property is computed at every read: no alias of a field)
            aliases[name] = val
    if not aliases:
        return False

    class _Sub(ast.NodeTransformer):
        def visit_Name(self, n: ast.Name):
            if isinstance(n.ctx, ast.Load) and n.id in aliases:
                return ast.copy_location(copy.deepcopy(aliases[n.id]), n)
            return n

    _Sub().visit(node)
    return True


def _is_field_chain(e: ast.AST) -> bool:
    while isinstance(e, ast.Attribute):
        e = e.value
    return isinstance(e, ast.Name)


def _own_returns(body: List[ast.stmt]):
    stack = list(body)
    while stack:
        s = stack.pop()
        if isinstance(s, (ast.FunctionDef, ast.AsyncFunctionDef, ast.ClassDef, ast.Lambda)):
            continue
        if isinstance(s, ast.Return):
            yield s
        stack.extend(ast.iter_child_nodes(s))


def _never_falls_through(body: List[ast.stmt], kinds) -> bool:
    """The block cannot complete normally: its last statement is a jump of ``kinds`` or an
    if/else or try statement all of whose arms are such blocks."""
    if not body:
        return False
    last = body[-1]
    if isinstance(last, kinds):
        return True
    if isinstance(last, ast.If):
        return _never_falls_through(last.body, kinds) and _never_falls_through(last.orelse, kinds)
    if isinstance(last, ast.Try):
        if last.finalbody and _never_falls_through(last.finalbody, kinds):
            return True
        main = _never_falls_through(last.orelse, kinds) if last.orelse else _never_falls_through(last.body, kinds)
        return main and all(_never_falls_through(h.body, kinds) for h in last.handlers)
    return False


def _ends_in_return(body: List[ast.stmt]) -> bool:
    return _never_falls_through(body, (ast.Return, ast.Raise))


def _ends_in_jump(body: List[ast.stmt]) -> bool:
    return _never_falls_through(body, (ast.Break, ast.Raise, ast.Return, ast.Continue))


def _in_loop(body: List[ast.stmt], target: ast.AST) -> bool:
    def walk(stmts, inside) -> Optional[bool]:
        for s in stmts:
            if s is target:
                return inside
            if isinstance(s, (ast.FunctionDef, ast.AsyncFunctionDef, ast.ClassDef)):
                continue
            loop = isinstance(s, (ast.For, ast.AsyncFor, ast.While))
            for fld in ("body", "orelse", "finalbody"):
                blk = getattr(s, fld, None)
                if isinstance(blk, list) and blk and isinstance(blk[0], ast.stmt):
                    r = walk(blk, inside or (loop and fld == "body"))
                    if r is not None:
                        return r
            if isinstance(s, ast.Try):
                for h in s.handlers:
                    r = walk(h.body, inside)
                    if r is not None:
                        return r
        return None

    return bool(walk(body, False))


def _replace_returns(body: List[ast.stmt], make) -> List[ast.stmt]:
    out: List[ast.stmt] = []
    for s in body:
        if isinstance(s, ast.Return):
            out.extend(make(s))
            continue
        if isinstance(s, (ast.FunctionDef, ast.AsyncFunctionDef, ast.ClassDef)):
            out.append(s)
            continue
        for fld in ("body", "orelse", "finalbody"):
            blk = getattr(s, fld, None)
            if isinstance(blk, list) and blk and isinstance(blk[0], ast.stmt):
                setattr(s, fld, _replace_returns(blk, make))
        if isinstance(s, ast.Try):
            for h in s.handlers:
                h.body = _replace_returns(h.body, make)
        out.append(s)
    return out


def _register_nested(module, node: ast.AST, qualname: str, cls, parent: Unit) -> None:
    synthetic = module.__dict__.setdefault("synthetic_units", [])
    for sub in iter_nested_scopes(node):
        if isinstance(sub, (ast.FunctionDef, ast.AsyncFunctionDef)):
            q = f"{qualname}.{sub.name}"
        elif isinstance(sub, ast.Lambda):
            q = f"{qualname}.<lambda@{sub.lineno}:{sub.col_offset}>"
        else:
            q = f"{qualname}.<genexp@{sub.lineno}:{sub.col_offset}>"
        decorators = []
        for dec in getattr(sub, "decorator_list", []):
            d = dec.func if isinstance(dec, ast.Call) else dec
            decorators.append(ast.unparse(d).split(".")[-1])
        u = Unit(module, q, sub, unit_kind(sub), cls, parent, decorators)
        synthetic.append(u)
        _register_nested(module, sub, q, cls, u)


_VIEWS: Dict[Tuple[int, str], Unit] = {}


def inlined_view(pkg, vals, unit: Unit, policy: Callable[[Unit], bool] = default_policy, keep: Tuple[str, ...] = ()) -> Unit:
    key = (id(unit.node), f"{getattr(policy, '__name__', 'p')}:{','.join(sorted(keep))}")
    if key not in _VIEWS:
        _VIEWS[key] = Inliner(pkg, vals, policy, keep).view(unit)
    return _VIEWS[key]
