"""
Origin analysis: what may an expression denote?

An abstract value is a frozenset of *atoms* (tuples).  The analysis is flow-sensitive for
local names (reaching definitions on the CFG), field-sensitive per class for ``self.x``
(union over all stores in the class), and uses summaries for the handful of library
helpers whose result origin matters (aiter, awaitify, borrow, ScopedIter, anext).

Atoms
  ('user', src)            object supplied by the caller (parameter / field holding one)
  ('iter', src)            async iterator obtained from a user iterable (aiter(x))
  ('siter', src)           synchronous iterator/iterable view of a user iterable
  ('item', src)            element pulled from a user iterable / iterator
  ('acall', src)           user callable routed through awaitify
  ('result', src)          value produced by calling / awaiting a user object
  ('usermeth', src, name)  attribute of a user object (bound method etc.)
  ('userawait', src)       awaitable obtained by calling a user object
  ('libfn', qual)          library function / class object
  ('libinst', classqual)   instance of a library class
  ('self', classqual) / ('cls', classqual)
  ('bound', classqual, name)   bound method of a library instance
  ('libcoro', qual)        coroutine object of a library coroutine function
  ('libgen', qual)         async generator object of a library async generator
  ('libgenmeth', qual, name)
  ('libret', qual)         result of a synchronous library function (opaque)
  ('borrowed', atom)       _core.borrow view of an iterator
  ('elems', atom)          container whose elements are ``atom``
  ('tuple', (vals...))     tuple display with per-position values
  ('fresh', typename)      freshly built empty / literal container
  ('const', text) ('none',) ('sentinel', name)
  ('builtin', name) ('stdlib', qual) ('stdlibval', qual) ('closure', qual)
  ('exc', text)            caught exception object
  ('unknown', text)
"""
from __future__ import annotations

import ast
from typing import Any, Dict, FrozenSet, Iterator, List, Optional, Set, Tuple

from .cfg import CFG, Node, cfg_of
from .flow import reaching, target_names
from .loader import (AnalysisError, ClassInfo, Package, Resolved, Unit, local_names, norm,
                     own_nodes, resolve_name, PKG)

Atom = Tuple
Val = FrozenSet[Atom]

EMPTY: Val = frozenset()
USERISH = {"user", "iter", "siter", "item", "acall", "result", "usermeth", "userawait", "usernext"}


def V(*atoms: Atom) -> Val:
    return frozenset(atoms)


def roles_of_annotation(ann: Optional[ast.AST]) -> Set[str]:
    if ann is None:
        return {"VALUE"}
    text = norm(ann)
    if isinstance(ann, ast.Constant) and isinstance(ann.value, str):
        text = ann.value
    roles = set()
    if "Callable" in text:
        roles.add("CALLABLE")
    # strip Callable[...] parts so that their Awaitable results do not count
    stripped = _strip_callable(text)
    if any(k in stripped for k in ("AnyIterable", "AsyncIterable", "Iterable")):
        roles.add("ITERABLE")
    if any(k in stripped for k in ("AsyncIterator", "AsyncGenerator")):
        roles.add("ITERATOR")
    if "ContextManager" in stripped:
        roles.add("ACM")
    if "Awaitable" in stripped:
        roles.add("AWAITABLE")
    return roles or {"VALUE"}


def _strip_callable(text: str) -> str:
    out = []
    i = 0
    while i < len(text):
        if text.startswith("Callable[", i):
            depth = 0
            j = i + len("Callable")
            while j < len(text):
                if text[j] == "[":
                    depth += 1
                elif text[j] == "]":
                    depth -= 1
                    if depth == 0:
                        break
                j += 1
            i = j + 1
            continue
        out.append(text[i])
        i += 1
    return "".join(out)


class Values:
    def __init__(self, pkg: Package):
        self.pkg = pkg
        self._field_memo: Dict[Tuple[str, str], Val] = {}
        self._field_busy: Set[Tuple[str, str]] = set()
        self._expr_busy: Set[Tuple[int, int]] = set()
        self._memo: Dict[Tuple[int, int], Val] = {}
        self._alive: List[Any] = []
        self._viewing = False
        # cycle cuts: a value computed while a request higher up the stack was answered with
        # "nothing yet" is provisional and must not be memoised (it would depend on who asked first)
        self._depth = 0
        self._busy_depth: Dict[Tuple[int, Any], int] = {}
        self._min_cut = 1 << 30

    def _enter(self, busy: set, key) -> None:
        self._depth += 1
        self._busy_depth[(id(busy), key)] = self._depth
        busy.add(key)

    def _cut(self, busy: set, key) -> Val:
        self._min_cut = min(self._min_cut, self._busy_depth.get((id(busy), key), 0))
        return EMPTY

    def _leave(self, busy: set, key) -> bool:
        d = self._busy_depth.pop((id(busy), key), 0)
        busy.discard(key)
        self._depth -= 1
        if self._min_cut < d:
            return False  # depends on an unfinished request above this one
        self._min_cut = 1 << 30
        # (while inlined views are under construction, field values come from the plain methods:
        # what is computed from them is provisional as well)
        return not self._viewing

    # ------------------------------------------------------------------ params
    def param_roles(self, unit: Unit, name: str) -> Set[str]:
        for p in unit.params():
            if p.arg == name:
                return roles_of_annotation(p.annotation)
        return {"VALUE"}

    def param_value(self, unit: Unit, name: str) -> Val:
        params = unit.param_names()
        if unit.cls is not None and unit.parent is None and params and name == params[0]:
            if unit.is_classmethod():
                return V(("cls", unit.cls.fq))
            if not unit.is_static():
                return V(("self", unit.cls.fq))
        node = unit.node
        args = getattr(node, "args", None)
        if args is not None:
            if args.vararg is not None and args.vararg.arg == name:
                return V(("elems", ("user", f"{unit.short}:{name}")))
            if args.kwarg is not None and args.kwarg.arg == name:
                return V(("kwargs", ("user", f"{unit.short}:{name}")))
        for p in unit.params():
            if p.arg == name and p.annotation is not None:
                lib = self._annotation_class(unit, p.annotation)
                if lib is not None:
                    return V(("libinst", lib))
                if self._annotation_head(p.annotation) in self.CONTAINER_HEADS:
                    # a library-built container of user values (internal plumbing)
                    return V(("elems", ("user", f"{unit.short}:{name}")))
        return V(("user", f"{unit.short}:{name}"))

    CONTAINER_HEADS = {"List", "Deque", "Tuple", "Dict", "Set", "list", "tuple", "dict", "set", "deque",
                       "OrderedDict", "DefaultDict", "FrozenSet", "frozenset"}

    def _annotation_head(self, ann: ast.AST) -> str:
        if isinstance(ann, ast.Constant) and isinstance(ann.value, str):
            try:
                ann = ast.parse(ann.value, mode="eval").body
            except SyntaxError:
                return ""
        if isinstance(ann, ast.Subscript):
            ann = ann.value
        if isinstance(ann, ast.Attribute):
            return ann.attr
        return ann.id if isinstance(ann, ast.Name) else ""

    def _annotation_class(self, unit: Unit, ann: ast.AST) -> Optional[str]:
        if isinstance(ann, ast.Constant) and isinstance(ann.value, str):
            try:
                ann = ast.parse(ann.value, mode="eval").body
            except SyntaxError:
                return None
        if isinstance(ann, ast.Subscript):
            ann = ann.value
        if isinstance(ann, (ast.Name, ast.Attribute)):
            res = self.pkg.resolve_expr_global(unit.module, ann)
            if res.kind == "lib" and self.pkg.lib_class(res.qual) is not None:
                return res.qual
        return None

    PLAIN_TYPES = {"bool", "int", "str", "float", "bytes", "Optional[int]", "Optional[bool]", "Optional[str]",
                   "Optional[float]"}

    def is_plain(self, atom: Atom) -> bool:
        """('user', 'unit:param') of a parameter annotated with a plain builtin type:
        operators on it cannot run user code."""
        if atom[0] != "user" or ":" not in atom[1]:
            return False
        ushort, _, pname = atom[1].partition(":")
        if not self.pkg.has_unit(ushort):
            return False
        u = self.pkg.unit(ushort)
        for p in u.params():
            if p.arg == pname and p.annotation is not None:
                return norm(p.annotation) in self.PLAIN_TYPES
        return False

    # ------------------------------------------------------------------- names
    def name(self, unit: Unit, ident: str, at: Optional[Node]) -> Val:
        res = resolve_name(self.pkg, unit, ident)
        if res.kind == "param":
            if at is None:
                return self.param_value(unit, ident)
            return self._local(unit, ident, at)
        if res.kind == "local":
            if at is None:
                return self._all_defs(unit, ident)
            return self._local(unit, ident, at)
        if res.kind == "free":
            owner = unit.parent
            while owner is not None and ident not in local_names(owner):
                owner = owner.parent
            if owner is None:
                return V(("unknown", ident))
            if ident in owner.param_names() and not self._rebound(owner, ident):
                return self.param_value(owner, ident)
            return self._all_defs(owner, ident)
        return self.global_value(res, ident)

    def _rebound(self, unit: Unit, ident: str) -> bool:
        for n in own_nodes(unit.node):
            if isinstance(n, ast.Name) and n.id == ident and isinstance(n.ctx, ast.Store):
                return True
        return False

    def global_value(self, res: Resolved, text: str = "") -> Val:
        k = res.kind
        if k == "lib":
            return V(("libfn", res.qual))
        if k == "builtin":
            return V(("builtin", res.qual))
        if k == "stdlib":
            return V(("stdlib", res.qual))
        if k in ("stdlibmod", "builtinmod", "libmod"):
            return V((k, res.qual))
        if k == "instance":
            if res.qual.endswith("Sentinel") or res.qual == "object":
                return V(("sentinel", text))
            if res.qual.startswith(PKG):
                return V(("libinst", res.qual))
            return V(("stdlibval", res.qual))
        if k == "value":
            return V(("const", text))
        return V(("unknown", text or res.qual))

    def _local(self, unit: Unit, ident: str, at: Node) -> Val:
        cfg = cfg_of(unit)
        defs = reaching(cfg).defs_at(at, ident)
        if not defs:
            # use before any definition on this path: fall back to all definitions
            return self._all_defs(unit, ident)
        out: Set[Atom] = set()
        for d in defs:
            out |= self.def_value(unit, d, ident)
        if any(a[0] in ("fresh", "elems") for a in out):
            out |= self._mutation_elems(unit, lambda e, u, n: isinstance(e, ast.Name) and e.id == ident)
        return frozenset(out)

    MUTATORS = {"append": 0, "appendleft": 0, "add": 0, "insert": 1}
    EXTENDERS = {"extend", "extendleft", "update"}
    HEAP_MUTATORS = {"heapq.heappush": 1, "heapq.heapreplace": 1, "heapq.heappushpop": 1}

    def _mutation_elems(self, unit: Unit, is_target, units: Optional[List[Unit]] = None) -> Set[Atom]:
        """Elements added to a container (named by ``is_target(expr)``) through
        mutating calls and subscript stores inside the given units."""
        out: Set[Atom] = set()
        for u in (units or [unit]):
            key = (id(u.node), "mut")
            cfg = cfg_of(u)
            for n in cfg.nodes:
                if n.kind == "call":
                    call = n.ast
                    assert isinstance(call, ast.Call)
                    f = call.func
                    if isinstance(f, ast.Attribute) and is_target(f.value, u, n):
                        if f.attr in self.MUTATORS and len(call.args) > self.MUTATORS[f.attr]:
                            out |= {("elems", a) for a in self.expr(u, call.args[self.MUTATORS[f.attr]], n)}
                        elif f.attr in self.EXTENDERS and call.args:
                            out |= {("elems", a) for a in self.element_of(self.expr(u, call.args[0], n))}
                    elif call.args and is_target(call.args[0], u, n):
                        fv = self.expr(u, f, n)
                        for a in fv:
                            if a[0] == "stdlib" and a[1] in self.HEAP_MUTATORS and len(call.args) > 1:
                                out |= {("elems", x) for x in self.expr(u, call.args[1], n)}
                elif n.kind == "store":
                    for t in n.info.get("targets", []):
                        if isinstance(t, ast.Subscript) and is_target(t.value, u, n) and n.info.get("value") is not None:
                            out |= {("elems", a) for a in self.expr(u, n.info["value"], n)}
        return out

    def _all_defs(self, unit: Unit, ident: str) -> Val:
        cfg = cfg_of(unit)
        out: Set[Atom] = set()
        if ident in unit.param_names():
            out |= self.param_value(unit, ident)
        for n in cfg.nodes:
            if n.kind in ("store", "handler") and ident in _defs_of(n):
                out |= self.def_value(unit, n, ident)
        return frozenset(out) or V(("unknown", ident))

    def def_value(self, unit: Unit, d: Node, ident: str) -> Val:
        """Value bound to ``ident`` by definition node ``d``."""
        if d.kind == "entry":
            return self.param_value(unit, ident)
        if d.kind == "handler":
            return V(("exc", norm(d.info.get("type"))))
        if d.kind == "del":
            return V(("unknown", f"deleted:{ident}"))
        key = (id(d), hash(ident))
        if key in self._memo:
            return self._memo[key]
        if key in self._expr_busy:
            return self._cut(self._expr_busy, key)
        self._enter(self._expr_busy, key)
        try:
            val = self._def_value(unit, d, ident)
        finally:
            keep = self._leave(self._expr_busy, key)
        if keep:
            self._memo[key] = val
        self._alive.append(d)
        return val

    def _def_value(self, unit: Unit, d: Node, ident: str) -> Val:
        info = d.info
        if info.get("nested_def"):
            node = info["value"]
            return V(("libfn", f"{unit.fq}.{node.name}"))
        if info.get("aug"):
            # x += y : keeps the old value's origin (in-place for mutable objects)
            stmt = d.ast
            assert isinstance(stmt, ast.AugAssign)
            old = self.expr(unit, stmt.target, _pred_node(d)) if isinstance(stmt.target, ast.Name) else EMPTY
            rhs = self.expr(unit, stmt.value, d)
            if any(a[0] in USERISH and not self.is_plain(a) for a in rhs) or \
                    any(a[0] in USERISH and not self.is_plain(a) for a in old):
                return frozenset(set(old) | {("result", "augmented")})
            return old or V(("const", "augmented"))
        if "source" in info:  # loop target
            pull: Node = info["source"]
            itv = self.expr(unit, pull.info["iter"], pull)
            elem = self.element_of(itv, is_async=pull.kind == "pull")
            return self._destructure(elem, info["targets"][0], ident)
        if "source_enter" in info:
            item: ast.withitem = info["source_enter"]
            cmv = self.expr(unit, item.context_expr, d)
            entered = self.entered(cmv)
            return self._destructure(entered, info["targets"][0], ident)
        value = info.get("value")
        if value is None:
            return V(("unknown", ident))
        val = self.expr(unit, value, d)
        for t in info["targets"]:
            if ident in target_names(t):
                return self._destructure(val, t, ident)
        return val

    def _destructure(self, val: Val, target: ast.AST, ident: str) -> Val:
        if isinstance(target, ast.Name):
            return val
        if isinstance(target, (ast.Tuple, ast.List)):
            out: Set[Atom] = set()
            for idx, elt in enumerate(target.elts):
                if ident not in target_names(elt):
                    continue
                for a in val:
                    if a[0] == "tuple" and idx < len(a[1]) and not any(
                        isinstance(e, ast.Starred) for e in target.elts
                    ):
                        out |= self._destructure(a[1][idx], elt, ident)
                    elif a[0] == "elems":
                        out |= self._destructure(V(a[1]), elt, ident)
                    elif a[0] in USERISH:
                        out |= self._destructure(V(("item", _src(a) + "[]")), elt, ident)
                    else:
                        out.add(("unknown", f"unpack:{ident}"))
            return frozenset(out)
        return V(("unknown", ident))

    # ---------------------------------------------------------------- elements
    def element_of(self, itv: Val, is_async: bool = False) -> Val:
        out: Set[Atom] = set()
        for a in itv:
            k = a[0]
            if k in ("elems", "kwargs"):
                out.add(a[1])
            elif k == "tuple":
                for v in a[1]:
                    out |= v
            elif k in ("user", "iter", "siter", "item", "result"):
                out.add(("item", _src(a) + "[]"))
            elif k == "borrowed":
                out |= self.element_of(V(a[1]), is_async)
            elif k == "libgen":
                if any(b[0] in ("enumerate", "zipped") for b in itv):
                    continue
                target = self.pkg.lib_unit(a[1])
                ys = self.yields(target) if target is not None else EMPTY
                out |= ys or V(("libyield", a[1]))
            elif k == "genexp":
                target = self.pkg.lib_unit(a[2])
                ys = self.yields(target) if target is not None else EMPTY
                out |= ys or V(("libyield", a[2]))
            elif k == "iterelems":
                out.add(a[1])
            elif k == "usermeth" and a[2] == "__dict__":
                out.add(("user", a[1] + ".__dict__[]"))
            elif k == "enumerate":
                out.add(("tuple", (V(("const", "index")), self.element_of(V(a[1]), is_async))))
            elif k == "zipped":
                out.add(("tuple", tuple(self.element_of(v, is_async) for v in a[1])))
            elif k in ("fresh", "none"):
                pass  # an empty container contributes no elements (and None is never iterated: a slot that was retired)
            elif k == "const":
                out.add(("const", "element"))
            elif k == "libinst" and self._lib_anext(a[1]) is not None:
                # a class-based iterator of the library: what its __anext__ returns
                out |= self.returns(self._lib_anext(a[1]))
            else:
                out.add(("unknown", f"element of {a}"))
        return frozenset(out)

    def _lib_anext(self, classqual: str) -> Optional[Unit]:
        info = self.pkg.lib_class(classqual)
        meth = info.methods.get("__anext__") if info is not None else None
        return meth if meth is not None and meth.kind == "coroutine" else None

    def entered(self, cmv: Val) -> Val:
        """Value bound by ``async with cm as x``."""
        out: Set[Atom] = set()
        has_scoped = any(a[0] == "scoped" for a in cmv)
        for a in cmv:
            if a[0] == "scoped":
                out |= a[1]
            elif a[0] == "libinst" and has_scoped and a[1].endswith("ScopedIter"):
                continue
            elif a[0] == "libinst":
                info = self.pkg.lib_class(a[1])
                meth = info.methods.get("__aenter__") if info else None
                if meth is not None:
                    out |= self.returns(meth)
                else:
                    out.add(("unknown", f"enter {a[1]}"))
            elif a[0] in USERISH:
                out.add(("result", _src(a)))
            else:
                out.add(("unknown", f"enter {a}"))
        return frozenset(out)

    def yields(self, unit: Unit) -> Val:
        """Context-insensitive union of the values a library generator yields."""
        key = (id(unit.node), -2)
        if key in self._memo:
            return self._memo[key]
        if key in self._expr_busy:
            return self._cut(self._expr_busy, key)
        self._enter(self._expr_busy, key)
        out: Set[Atom] = set()
        try:
            cfg = cfg_of(unit)
            for n in cfg.nodes:
                if n.kind == "yield":
                    out |= self.expr(unit, n.info.get("value"), n)
        finally:
            keep = self._leave(self._expr_busy, key)
        val = frozenset(out)
        if keep:
            self._memo[key] = val
        return val

    def returns(self, unit: Unit) -> Val:
        """Context-insensitive union of a library function's return values."""
        key = (id(unit.node), -1)
        if key in self._memo:
            return self._memo[key]
        if key in self._expr_busy:
            return self._cut(self._expr_busy, key)
        self._enter(self._expr_busy, key)
        out: Set[Atom] = set()
        try:
            cfg = cfg_of(unit)
            for n in cfg.nodes:
                if n.kind == "return":
                    v = n.info.get("value")
                    out |= self.expr(unit, v, n) if v is not None else V(("none",))
            if any(lab in ("n", "t", "f", "stop") and s is cfg.exit and p.kind != "return"
                   for p in cfg.nodes for lab, s in p.succ):
                out.add(("none",))
        finally:
            keep = self._leave(self._expr_busy, key)
        val = frozenset(out)
        if keep:
            self._memo[key] = val
        return val

    # ------------------------------------------------------------------ fields
    def field(self, classqual: str, attr: str) -> Val:
        key = (classqual, attr)
        if key in self._field_memo:
            return self._field_memo[key]
        if key in self._field_busy:
            return self._cut(self._field_busy, key)
        # the value a private helper computes for a field is seen in the caller's context
        # (asl.inline), not as the union over all of the helper's callers.  Views are built
        # before the scan; a request made while one is under construction uses the plain methods.
        views: Dict[int, Unit] = {}
        degraded = self._viewing
        if not degraded:
            from .inline import inlined_view
            self._viewing = True
            try:
                for info in self.mro(classqual):
                    for meth in info.module.units.values():
                        if meth.cls is info and meth.parent is None and not meth.is_overload():
                            views[id(meth)] = inlined_view(self.pkg, self, meth)
            finally:
                self._viewing = False
        self._enter(self._field_busy, key)
        out: Set[Atom] = set()
        try:
            for info in self.mro(classqual):
                mattr = info.mangle(attr) if attr.startswith("__") else attr
                for meth in info.module.units.values():
                    if meth.cls is not info:
                        continue
                    meth = views.get(id(meth), meth)
                    cfg = cfg_of(meth)
                    for n in cfg.nodes:
                        if n.kind != "store":
                            continue
                        for t in n.info.get("targets", []):
                            for sub in _flatten_targets(t):
                                if not isinstance(sub, ast.Attribute):
                                    continue
                                if info.mangle(sub.attr) != mattr and sub.attr != attr:
                                    continue
                                base = self.expr(meth, sub.value, n)
                                if not any(b[0] in ("self", "libinst") and self._is_subclass(classqual, b[1])
                                           or b[0] in ("self", "libinst") and self._is_subclass(b[1], classqual)
                                           for b in base):
                                    continue
                                value = n.info.get("value")
                                if value is None:
                                    out.add(("unknown", f"{classqual}.{attr}"))
                                    continue
                                val = self.expr(meth, value, n)
                                if isinstance(t, (ast.Tuple, ast.List)):
                                    val = self._destructure_attr(val, t, sub)
                                out |= val
        finally:
            keep = self._leave(self._field_busy, key)
        # stores through other names (``state.current_group = ...`` in sibling classes)
        out |= self._foreign_stores(classqual, attr)
        if any(a[0] in ("fresh", "elems") for a in out):
            self._field_memo[key] = frozenset(out)  # break recursion while scanning

            def is_field(e: ast.AST, u: Unit, n: Node) -> bool:
                if not (isinstance(e, ast.Attribute) and e.attr == attr):
                    return False
                base = self.expr(u, e.value, n)
                return any(b[0] in ("self", "libinst") and
                           (self._is_subclass(b[1], classqual) or self._is_subclass(classqual, b[1]))
                           for b in base)

            cands = [u for u in self.pkg.all_units() if not u.is_overload() and any(
                isinstance(x, ast.Attribute) and x.attr == attr for x in own_nodes(u.node))]
            out |= self._mutation_elems(cands[0] if cands else None, is_field, cands)  # type: ignore[arg-type]
        val = frozenset(out)
        if degraded or not keep:
            self._field_memo.pop(key, None)
        else:
            self._field_memo[key] = val
        return val

    def _destructure_attr(self, val: Val, target: ast.AST, sub: ast.AST) -> Val:
        out: Set[Atom] = set()
        assert isinstance(target, (ast.Tuple, ast.List))
        for idx, elt in enumerate(target.elts):
            if elt is sub:
                for a in val:
                    if a[0] == "tuple" and idx < len(a[1]):
                        out |= a[1][idx]
                    else:
                        out.add(("unknown", "unpack"))
        return frozenset(out)

    def _foreign_stores(self, classqual: str, attr: str) -> Val:
        out: Set[Atom] = set()
        for unit in self.pkg.all_units():
            if unit.is_overload():
                continue
            if unit.cls is not None and unit.cls.fq == classqual:
                continue
            has = False
            for n in own_nodes(unit.node):
                if isinstance(n, ast.Attribute) and n.attr == attr and isinstance(n.ctx, ast.Store):
                    has = True
                    break
            if not has:
                continue
            cfg = cfg_of(unit)
            for n in cfg.nodes:
                if n.kind != "store":
                    continue
                for t in n.info.get("targets", []):
                    for sub in _flatten_targets(t):
                        if isinstance(sub, ast.Attribute) and sub.attr == attr:
                            base = self.expr(unit, sub.value, n)
                            if any(b[0] in ("libinst", "self") and b[1] == classqual for b in base):
                                value = n.info.get("value")
                                if value is not None:
                                    val = self.expr(unit, value, n)
                                    if isinstance(t, (ast.Tuple, ast.List)):
                                        val = self._destructure_attr(val, t, sub)
                                    out |= val
        return frozenset(out)

    def mro(self, classqual: str) -> List[ClassInfo]:
        out: List[ClassInfo] = []
        seen: Set[str] = set()
        work = [classqual]
        while work:
            q = work.pop(0)
            if q in seen:
                continue
            seen.add(q)
            info = self.pkg.lib_class(q)
            if info is None:
                continue
            out.append(info)
            for b in info.node.bases:
                base = b.value if isinstance(b, ast.Subscript) else b
                res = self.pkg.resolve_expr_global(info.module, base)
                if res.kind == "lib":
                    work.append(res.qual)
        return out

    def _is_subclass(self, sub: str, sup: str) -> bool:
        return any(i.fq == sup for i in self.mro(sub))

    def find_method(self, classqual: str, name: str) -> Optional[Unit]:
        for info in self.mro(classqual):
            if name in info.methods:
                return info.methods[name]
        return None

    # ------------------------------------------------------------- expressions
    def expr(self, unit: Unit, e: Optional[ast.AST], at: Optional[Node]) -> Val:
        if e is None:
            return V(("none",))
        key = (id(e), id(at))
        if key in self._memo:
            return self._memo[key]
        if key in self._expr_busy:
            return self._cut(self._expr_busy, key)
        self._enter(self._expr_busy, key)
        try:
            val = self._expr(unit, e, at)
        finally:
            keep = self._leave(self._expr_busy, key)
        if keep:
            self._memo[key] = val
        # keep the keyed objects alive: rules evaluate temporary AST copies (inlined locals, stripped
        # casts), and a collected object's id() may be handed to a different expression later
        self._alive.append((e, at))
        return val

    def _expr(self, unit: Unit, e: ast.AST, at: Optional[Node]) -> Val:
        if isinstance(e, ast.Constant):
            return V(("none",)) if e.value is None else V(("const", repr(e.value)))
        if isinstance(e, ast.Name):
            return self.name(unit, e.id, at)
        if isinstance(e, ast.NamedExpr):
            return self.expr(unit, e.value, at)
        if isinstance(e, ast.Await):
            return self.awaited(self.expr(unit, e.value, at))
        if isinstance(e, ast.Attribute):
            return self.attribute(unit, e, at)
        if isinstance(e, ast.Call):
            return self.call(unit, e, at)
        if isinstance(e, ast.Subscript):
            base = self.expr(unit, e.value, at)
            # Generic alias of a class: _KeyIter[Any]
            if all(a[0] in ("libfn", "cls") for a in base) and base:
                return base
            if isinstance(e.slice, ast.Slice):
                return base
            out: Set[Atom] = set()
            for a in base:
                if a[0] == "tuple" and isinstance(e.slice, ast.Constant) and isinstance(e.slice.value, int) \
                        and -len(a[1]) <= e.slice.value < len(a[1]):
                    out |= a[1][e.slice.value]
                else:
                    out |= self.element_of(V(a))
            return frozenset(out)
        if isinstance(e, ast.IfExp):
            return self.expr(unit, e.body, at) | self.expr(unit, e.orelse, at)
        if isinstance(e, ast.BoolOp):
            out = set()
            for v in e.values:
                out |= self.expr(unit, v, at)
            return frozenset(out)
        if isinstance(e, ast.Tuple):
            if any(isinstance(x, ast.Starred) for x in e.elts):
                out = set()
                for x in e.elts:
                    if isinstance(x, ast.Starred):
                        out |= {("elems", a) for a in self.element_of(self.expr(unit, x.value, at))}
                    else:
                        out |= {("elems", a) for a in self.expr(unit, x, at)}
                return frozenset(out) or V(("fresh", "tuple"))
            return V(("tuple", tuple(self.expr(unit, x, at) for x in e.elts)))
        if isinstance(e, (ast.List, ast.Set)):
            out = set()
            for x in e.elts:
                if isinstance(x, ast.Starred):
                    out |= {("elems", a) for a in self.element_of(self.expr(unit, x.value, at))}
                else:
                    out |= {("elems", a) for a in self.expr(unit, x, at)}
            return frozenset(out) or V(("fresh", type(e).__name__.lower()))
        if isinstance(e, ast.Dict):
            out = set()
            for k, v in zip(e.keys, e.values):
                vv = self.expr(unit, v, at)
                if k is None:
                    out |= vv
                else:
                    out |= {("elems", a) for a in vv}
            return frozenset(out) or V(("fresh", "dict"))
        if isinstance(e, (ast.ListComp, ast.SetComp, ast.GeneratorExp, ast.DictComp)):
            return self.comprehension(unit, e, at)
        if isinstance(e, ast.Lambda):
            return V(("closure", f"{unit.fq}.<lambda@{e.lineno}:{e.col_offset}>"))
        if isinstance(e, ast.BinOp) and isinstance(e.op, ast.Mult) and isinstance(e.left, (ast.List, ast.Tuple)):
            return self.expr(unit, e.left, at)  # ``[x] * n``: a new list of the very elements of the display
        if isinstance(e, (ast.BinOp, ast.UnaryOp, ast.Compare)):
            subs: List[ast.AST] = []
            if isinstance(e, ast.BinOp):
                subs = [e.left, e.right]
            elif isinstance(e, ast.UnaryOp):
                subs = [e.operand]
            else:
                subs = [e.left] + list(e.comparators)
            vals = [self.expr(unit, s, at) for s in subs]
            if isinstance(e, ast.Compare) and all(isinstance(o, (ast.Is, ast.IsNot)) for o in e.ops):
                return V(("const", "identity test"))
            if any(a[0] in USERISH and not self.is_plain(a) for v in vals for a in v):
                return V(("result", "operator"))
            return V(("const", "computed"))
        if isinstance(e, (ast.JoinedStr, ast.FormattedValue)):
            return V(("const", "str"))
        if isinstance(e, ast.Starred):
            return self.expr(unit, e.value, at)
        if isinstance(e, ast.Slice):
            return V(("const", "slice"))
        if isinstance(e, (ast.Yield, ast.YieldFrom)):
            return V(("user", "sent"))
        return V(("unknown", norm(e)))

    def comprehension(self, unit: Unit, e: ast.AST, at: Optional[Node]) -> Val:
        """Element origin of a comprehension: evaluate the element with the loop
        variables bound through the inline-expanded CFG (list/set/dict comprehensions)
        or through the nested genexp unit."""
        if isinstance(e, ast.GeneratorExp):
            sub = self._nested_unit(unit, e)
            if sub is None:
                return V(("unknown", "genexp"))
            kind = "agen" if sub.kind == "agenexp" else "gen"
            return V(("genexp", kind, sub.fq))
        cfg = cfg_of(unit)
        out = set()
        for n in cfg.nodes_of(e):
            if n.kind == "collect":
                for el in n.info["elements"][-1:]:
                    out |= self.expr(unit, el, n)
        return frozenset(("elems", a) for a in out) or V(("fresh", "comprehension"))

    def _nested_unit(self, unit: Unit, node: ast.AST) -> Optional[Unit]:
        for u in unit.module.units.values():
            if u.node is node:
                return u
        for u in unit.module.__dict__.get("synthetic_units", ()):  # nested scopes of inlined views
            if u.node is node:
                return u
        return None

    # -------------------------------------------------------------- attributes
    def attribute(self, unit: Unit, e: ast.Attribute, at: Optional[Node]) -> Val:
        # statically resolvable dotted names (module attributes, Class.method)
        if isinstance(e.value, (ast.Name, ast.Attribute, ast.Subscript)):
            head = e.value
            while isinstance(head, (ast.Attribute, ast.Subscript)):
                head = head.value
            if isinstance(head, ast.Name):
                r = resolve_name(self.pkg, unit, head.id)
                if r.kind not in ("param", "local", "free"):
                    res = self.pkg.resolve_expr_global(unit.module, e)
                    if res.kind != "unknown":
                        return self.global_value(res, norm(e))
        base = self.expr(unit, e.value, at)
        out: Set[Atom] = set()
        for a in base:
            out |= self.attr_of(a, e.attr, unit)
        return frozenset(out)

    def attr_of(self, a: Atom, attr: str, unit: Optional[Unit] = None) -> Val:
        k = a[0]
        if k in ("self", "libinst", "cls"):
            classqual = a[1]
            lookup = attr
            if unit is not None and unit.cls is not None and attr.startswith("__") and not attr.endswith("__"):
                lookup = attr  # mangling is handled inside field()
            if attr == "__class__":
                return V(("cls", classqual))
            if attr == "__dict__":
                return V(("instdict", classqual))
            if (classqual, lookup) in self._field_busy:
                return self._cut(self._field_busy, (classqual, lookup))
            val = self.field(classqual, lookup) if k != "cls" else EMPTY
            if val:
                return val
            meth = self.find_method(classqual, attr)
            if meth is not None:
                if meth.is_property():
                    return self.returns(meth)
                if meth.is_static() or (k == "cls" and not meth.is_classmethod()):
                    return V(("libfn", f"{meth.module.name}.{meth.qualname}"))
                return V(("bound", classqual, attr))
            # class-level attribute
            for info in self.mro(classqual):
                for stmt in info.node.body:
                    if isinstance(stmt, ast.Assign):
                        for t in stmt.targets:
                            if isinstance(t, ast.Name) and t.id == attr:
                                return V(("sentinel", f"{info.name}.{attr}")) \
                                    if isinstance(stmt.value, ast.Call) else V(("const", attr))
                    if isinstance(stmt, ast.AnnAssign) and stmt.value is not None and isinstance(stmt.target, ast.Name) \
                            and stmt.target.id == attr:          # (``_marker: Any = object()``)
                        return V(("sentinel", f"{info.name}.{attr}")) if isinstance(stmt.value, ast.Call) else V(("const", attr))
            return V(("unknown", f"{classqual}.{attr}"))
        if k in USERISH:
            return V(("usermeth", _src(a), attr))
        if k == "libcoro":
            return V(("libcoromethod", a[1], attr))
        if k == "borrowed":
            return V(("libgenmeth", f"{PKG}._core.borrow", attr))
        if k == "libgen":
            return V(("libgenmeth", a[1], attr))
        if k == "genexp":
            return V(("libgenmeth", a[2], attr))
        if k in ("elems", "fresh", "tuple", "enumerate", "zipped", "kwargs"):
            return V(("contmeth", attr, a))
        if k == "exc":
            return V(("excattr", attr))
        if k == "instdict":
            return V(("contmeth", attr, a))
        if k == "libmod":
            mod = self.pkg.modules.get(a[1])
            if mod is not None:
                return self.global_value(self.pkg.resolve_global(mod, attr), attr)
        if k == "stdlibmod":
            return V(("stdlib", f"{a[1]}.{attr}"))
        if k == "builtinmod":
            return V(("builtin", attr))
        if k == "libfn":
            # attribute of a class object / function object
            info = self.pkg.lib_class(a[1])
            if info is not None:
                meth = self.find_method(a[1], attr)
                if meth is not None:
                    return V(("libfn", f"{meth.module.name}.{meth.qualname}"))
                return V(("const", f"{a[1]}.{attr}"))
            return V(("const", f"{a[1]}.{attr}"))
        if k == "none":
            return EMPTY
        if k in ("const", "sentinel", "stdlibval", "builtin", "stdlib", "closure", "libret"):
            return V(("const", f"attr {attr} of {k}"))
        return V(("unknown", f"{a}.{attr}"))

    # ------------------------------------------------------------------- calls
    def callee(self, unit: Unit, call: ast.Call, at: Optional[Node]) -> Val:
        return self.expr(unit, call.func, at)

    def call(self, unit: Unit, e: ast.Call, at: Optional[Node]) -> Val:
        fv = self.callee(unit, e, at)
        out: Set[Atom] = set()
        for f in fv:
            out |= self.call_atom(unit, f, e, at)
        return frozenset(out)

    def _arg(self, unit: Unit, e: ast.Call, at: Optional[Node], index: int, name: Optional[str] = None) -> Val:
        pos = [a for a in e.args]
        if index < len(pos):
            a = pos[index]
            if isinstance(a, ast.Starred):
                return self.element_of(self.expr(unit, a.value, at))
            return self.expr(unit, a, at)
        if name:
            for kw in e.keywords:
                if kw.arg == name:
                    return self.expr(unit, kw.value, at)
        return EMPTY

    def call_atom(self, unit: Unit, f: Atom, e: ast.Call, at: Optional[Node]) -> Val:
        k = f[0]
        if k == "libfn":
            return self.call_lib(unit, f[1], e, at)
        if k == "bound":
            meth = self.find_method(f[1], f[2])
            if meth is None:
                return V(("unknown", f"{f[1]}.{f[2]}()"))
            return self.call_unit(unit, meth, e, at, bound=True)
        if k == "cls":
            return V(("libinst", f[1]))
        if k in ("libinst", "self"):
            meth = self.find_method(f[1], "__call__")
            if meth is not None:
                return self.call_unit(unit, meth, e, at, bound=True)
            return V(("unknown", f"call of instance {f[1]}"))
        if k == "builtin":
            return self.call_builtin(unit, f[1], e, at)
        if k == "stdlib":
            return self.call_stdlib(unit, f[1], e, at)
        if k in ("sentinel", "none"):
            return EMPTY  # ``getattr(x, "aclose", <default>)``: the default is never called (guarded by identity)
        if k == "acall":
            return V(("userawait", f[1]))
        if k in ("user", "result", "item", "usermeth", "iter", "siter"):
            if k == "usermeth" and f[2] in ("items", "values", "keys") and not e.args and not e.keywords:
                # a mapping of the user (``**kwargs`` handed to a private step): its views range over its own keys / values
                item = V(("item", str(f[1]) + "[]"))
                if f[2] == "items":
                    return V(("elems", ("tuple", (V(("const", "key")), item))))
                return V(("elems", ("const", "key"))) if f[2] == "keys" else frozenset(("elems", a_) for a_ in item)
            if k == "usermeth" and f[2] == "__aiter__":
                return V(("iter", f[1]))
            if k == "usermeth" and f[2] in ("__iter__",):
                return V(("siter", f[1]))
            if k == "usermeth" and f[2] == "__anext__":
                return V(("usernext", f[1]))
            return V(("userawait", _src(f)))
        if k == "userawait":
            return V(("userawait", f[1]))
        if k == "libgenmeth":
            if f[2] == "__aiter__":
                return V(("libgen", f[1]))
            return V(("libcoro", f"{f[1]}.{f[2]}"))
        if k == "contmeth":
            return self.call_container(f[1], f[2])
        if k == "partial":
            return self.call_atom(unit, f[1], e, at)
        if k == "libcoromethod":
            return V(("libcoroiter", f[1], f[2]))
        if k == "closure":
            return V(("libret", f[1]))
        if k == "libret":
            return V(("libret", f[1] + "()"))
        if k == "excattr":
            return V(("const", "exc"))
        return V(("unknown", f"call of {f}"))

    def call_container(self, meth: str, cont: Atom) -> Val:
        if meth in ("pop", "popleft", "popitem", "get", "__getitem__"):
            return self.element_of(V(cont))
        if meth == "items":
            return V(("elems", ("tuple", (V(("const", "key")), self.element_of(V(cont))))))
        if meth in ("values", "copy"):
            return V(cont)
        if meth == "keys":
            return V(("elems", ("const", "key")))
        return V(("none",))

    def call_lib(self, unit: Unit, qual: str, e: ast.Call, at: Optional[Node]) -> Val:
        short = qual[len(PKG) + 1:] if qual.startswith(PKG + ".") else qual
        if short in ("_core.aiter", "builtins.iter"):
            arg = self._arg(unit, e, at, 0, "subject")
            if short == "builtins.iter" and (len(e.args) > 1 or any(kw.arg == "sentinel" for kw in e.keywords)):
                return V(("libgen", f"{PKG}.builtins.acallable_iterator"))
            return self.as_async_iter(arg)
        if short == "builtins.anext":
            arg = self._arg(unit, e, at, 0, "iterator")
            dflt = self._arg(unit, e, at, 1, "default")
            return V(("anextcoro", arg, dflt))
        if short == "_core.awaitify":
            arg = self._arg(unit, e, at, 0, "function")
            out: Set[Atom] = set()
            for a in arg:
                if a[0] in USERISH:
                    out.add(("acall", _src(a)))
                elif a[0] == "acall":
                    out.add(a)
                elif a[0] == "builtin":
                    out.add(("acall", f"builtin:{a[1]}"))
                elif a[0] == "libfn":
                    out.add(a)
                elif a[0] == "none":
                    pass
                else:
                    out.add(("acall", f"?{a}"))
            return frozenset(out)
        if short == "builtins.enumerate":
            arg = self.as_async_iter(self._arg(unit, e, at, 0, "iterable"))
            return frozenset({("enumerate", a) for a in arg} | {("libgen", qual)})
        if short == "builtins.zip":
            args = tuple(self.as_async_iter(self._arg(unit, e, at, i)) for i in range(len(e.args))
                         if not isinstance(e.args[i], ast.Starred))
            if len(args) == len(e.args) and args:
                return V(("zipped", args), ("libgen", qual))
            return V(("libgen", qual))
        if short == "_core.borrow":
            arg = self._arg(unit, e, at, 0, "iterator")
            return frozenset(("borrowed", a) for a in arg)
        if short == "_core.ScopedIter":
            arg = self._arg(unit, e, at, 0, "iterable")
            return V(("scoped", self.as_async_iter(arg)), ("libinst", qual))
        info = self.pkg.lib_class(qual)
        if info is not None:
            return V(("libinst", qual))
        target = self.pkg.lib_unit(qual)
        if target is None:
            return V(("unknown", f"{qual}()"))
        return self.call_unit(unit, target, e, at, bound=False)

    def call_unit(self, unit: Unit, target: Unit, e: ast.Call, at: Optional[Node], bound: bool) -> Val:
        qual = f"{target.module.name}.{target.qualname}"
        if target.kind == "coroutine":
            return V(("libcoro", qual))
        if target.kind == "asyncgen":
            return V(("libgen", qual))
        if target.kind == "generator":
            return V(("libsyncgen", qual))
        # synchronous library function: context-insensitive return value
        ret = self.returns(target)
        if ret and target.node.name.startswith("_") and not target.node.name.startswith("__") and target.parent is None \
                and not any(isinstance(a_, ast.Starred) for a_ in e.args):
            # a private helper that hands one of its parameters back (``return lru`` after dressing it up): at this call
            # that is what was passed for the parameter
            names = target.param_names()
            offset = 1 if (bound and target.cls is not None and not target.is_static()) else 0
            rets_ = [x.value for x in own_nodes(target.node) if isinstance(x, ast.Return)]
            stored_ = {x.id for x in own_nodes(target.node) if isinstance(x, ast.Name) and isinstance(x.ctx, ast.Store)}
            if rets_ and all(isinstance(v_, ast.Name) and v_.id in names and v_.id not in stored_ for v_ in rets_):
                # (every return hands a parameter back as it came in: whatever its annotation says, the value is the argument)
                direct: Set[Atom] = set()
                for v_ in rets_:
                    got = self._arg(unit, e, at, names.index(v_.id) - offset, v_.id) if names.index(v_.id) - offset >= 0 else EMPTY
                    if not got:
                        direct = set()
                        break
                    direct |= got
                if direct:
                    return frozenset(direct)
            own = {f"{target.short}:{p_}": i_ for i_, p_ in enumerate(names)}
            out: Set[Atom] = set()
            for a_ in ret:
                if a_[0] == "user" and a_[1] in own and own[a_[1]] - offset >= 0:
                    got = self._arg(unit, e, at, own[a_[1]] - offset, names[own[a_[1]]])
                    out |= got if got else {a_}
                else:
                    out.add(a_)
            ret = frozenset(out)
        return ret or V(("libret", qual))

    def as_async_iter(self, arg: Val) -> Val:
        out: Set[Atom] = set()
        for a in arg:
            k = a[0]
            if k in ("user", "item", "result", "siter"):
                out.add(("iter", _src(a)))
            elif k in ("iter", "libgen", "borrowed", "libinst"):
                out.add(a)
            elif k == "genexp":
                out.add(("libgen", a[2]))
            elif k == "elems":
                # iterating a container: its elements come out
                out.add(("iterelems", a[1]))
            elif k in ("tuple", "fresh", "const", "enumerate", "zipped"):
                out.add(("iterelems", ("const", "elements")) if k != "tuple" else ("iterelems", ("tupleelems", a[1])))
            else:
                out.add(("unknown", f"aiter({a})"))
        return frozenset(out)

    def call_builtin(self, unit: Unit, name: str, e: ast.Call, at: Optional[Node]) -> Val:
        if name in ("tuple", "list", "set", "frozenset", "sorted", "reversed", "iter", "deque"):
            if not e.args:
                return V(("fresh", name))
            arg = self._arg(unit, e, at, 0)
            out: Set[Atom] = set()
            for a in arg:
                if a[0] in ("elems", "fresh", "tuple", "enumerate", "zipped"):
                    out.add(a)
                elif a[0] == "genexp":
                    out |= {("elems", x) for x in self.element_of(V(a))}
                elif a[0] in USERISH:
                    out.add(("elems", ("item", _src(a) + "[]")))
                elif a[0] == "contmeth":
                    out |= self.call_container(a[1], a[2])
                else:
                    out.add(("elems", ("unknown", f"{name}({a})")))
            return frozenset(out) or V(("fresh", name))
        if name == "dict":
            return V(("fresh", "dict"))
        if name == "next" and e.args:
            # next(it[, default]): an element of what ``it`` iterates (or the default)
            out2 = set(self.element_of(self._arg(unit, e, at, 0)))
            if len(e.args) > 1:
                out2 |= self._arg(unit, e, at, 1)
            return frozenset(out2) or V(("unknown", "next()"))
        if name == "enumerate":
            arg = self._arg(unit, e, at, 0)
            return frozenset(("enumerate", a) for a in arg)
        if name == "zip":
            return V(("zipped", tuple(self._arg(unit, e, at, i) for i in range(len(e.args)))))
        if name == "range":
            return V(("elems", ("const", "int")))
        if name == "map":
            # ``map(aiter, xs)``: like ``(aiter(x) for x in xs)`` — the library's adapter applied to every element
            if len(e.args) == 2:
                fv = self._arg(unit, e, at, 0)
                if fv and all(f[0] == "libfn" and f[1].rsplit(".", 1)[-1] in ("aiter", "iter") for f in fv):
                    its = self.as_async_iter(self.element_of(self._arg(unit, e, at, 1)))
                    return frozenset(("elems", x) for x in its) or V(("elems", ("const", "mapped")))
            return V(("elems", ("const", "mapped")))
        if name == "filter" and len(e.args) == 2:
            # ``filter(pred, xs)``: an iterable over a selection of the elements of xs
            return frozenset(("elems", x) for x in self.element_of(self._arg(unit, e, at, 1))) or V(("elems", ("const", "filtered")))
        if name == "getattr":
            arg = self._arg(unit, e, at, 0)
            attr = e.args[1] if len(e.args) > 1 else None
            out = set()
            for a in arg:
                if isinstance(attr, ast.Constant) and isinstance(attr.value, str):
                    out |= self.attr_of(a, attr.value, unit)
                elif a[0] in USERISH:
                    out.add(("usermeth", _src(a), "?"))
                else:
                    out.add(("unknown", f"getattr({a})"))
            if len(e.args) > 2:
                out |= self.expr(unit, e.args[2], at)
            return frozenset(out)
        if name == "type":
            arg = self._arg(unit, e, at, 0)
            out = set()
            for a in arg:
                if a[0] in ("self", "libinst"):
                    out.add(("cls", a[1]))
                else:
                    out.add(("const", "type"))
            return frozenset(out)
        if name in ("isinstance", "issubclass", "hasattr", "callable", "len", "id", "hash", "repr",
                    "str", "int", "bool", "slice", "object", "print", "abs", "min", "max"):
            if name == "object":
                return V(("sentinel", "object()"))
            return V(("const", name))
        if name == "super":
            return V(("unknown", "super()"))
        return V(("stdlibval", f"builtins.{name}"))

    def call_stdlib(self, unit: Unit, qual: str, e: ast.Call, at: Optional[Node]) -> Val:
        if qual == "functools.partial":
            f = self._arg(unit, e, at, 0)
            out: Set[Atom] = set()
            for a in f:
                if a[0] == "acall":
                    out.add(a)
                elif a[0] in ("libfn", "bound"):
                    out.add(("partial", a))
                elif a[0] in USERISH:
                    out.add(a)
                else:
                    out.add(("unknown", f"partial({a})"))
            return frozenset(out)
        if qual in ("functools.wraps",):
            return V(("decorator", qual))
        if qual in ("collections.deque", "collections.OrderedDict"):
            return V(("fresh", qual.split(".")[-1]))
        if qual == "typing.cast":
            return self._arg(unit, e, at, 1)
        if qual == "builtins.filter" and len(e.args) == 2:
            return self._arg(unit, e, at, 1)  # (a selection of the elements of its second argument)
        if qual in ("itertools.cycle", "itertools.islice", "builtins.reversed", "builtins.iter") and e.args:
            return self._arg(unit, e, at, 0)  # (an iterator over elements of its first argument, the very objects)
        if qual == "itertools.repeat" and e.args:
            # (an iterator that hands out its first argument, the very object, again and again)
            return V(*[("elems", a) for a in self._arg(unit, e, at, 0)]) if self._arg(unit, e, at, 0) else V(("stdlibval", qual))
        if qual == "functools.update_wrapper":
            return self._arg(unit, e, at, 0)  # (hands its first argument back)
        if qual.endswith("iscoroutinefunction"):
            return V(("const", "bool"))
        return V(("stdlibval", qual))

    # ------------------------------------------------------------------- await
    def awaited(self, v: Val) -> Val:
        out: Set[Atom] = set()
        for a in v:
            k = a[0]
            if k == "userawait":
                out.add(("result", a[1]))
            elif k == "usernext":
                out.add(("item", a[1]))
            elif k == "anextcoro":
                out |= self.element_of(a[1], is_async=True) | a[2]
            elif k in USERISH:
                out.add(("result", _src(a)))
            elif k == "libcoro":
                target = self.pkg.lib_unit(a[1])
                if a[1].endswith("builtins.anext"):
                    out.add(("item", "anext"))
                elif target is not None:
                    out |= self.returns(target) or V(("none",))
                elif a[1].rsplit(".", 1)[-1] in ("__anext__", "asend", "athrow"):
                    out.add(("libyield", a[1].rsplit(".", 1)[0]))
                else:
                    out.add(("none",))
            else:
                out.add(("unknown", f"await {a}"))
        return frozenset(out)


def _flatten_targets(t: ast.AST) -> List[ast.AST]:
    if isinstance(t, (ast.Tuple, ast.List)):
        out: List[ast.AST] = []
        for e in t.elts:
            out.extend(_flatten_targets(e))
        return out
    return [t]


def _defs_of(n: Node) -> List[str]:
    from .flow import node_defs
    return node_defs(n)


def _pred_node(n: Node) -> Optional[Node]:
    for _lab, p in n.pred:
        return p
    return None


def _src(a: Atom) -> str:
    if a[0] in USERISH:
        return a[1]
    return str(a)


def atoms_deep(v) -> "Iterator[Atom]":
    """All atoms of a value including those nested in containers / wrappers."""
    stack = list(v)
    while stack:
        a = stack.pop()
        yield a
        for part in a[1:]:
            if isinstance(part, frozenset):
                stack.extend(part)
            elif isinstance(part, tuple):
                if part and isinstance(part[0], str):
                    stack.append(part)
                else:
                    for sub in part:
                        if isinstance(sub, frozenset):
                            stack.extend(sub)
                        elif isinstance(sub, tuple) and sub and isinstance(sub[0], str):
                            stack.append(sub)


def mentions(v, src: str) -> bool:
    return any(a[0] in USERISH and a[1] == src for a in atoms_deep(v))
