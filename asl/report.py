"""Findings, obligations, evidence files, known findings, exit codes."""
from __future__ import annotations

import ast
import json
import os
import time
from dataclasses import dataclass, field, asdict
from typing import Any, Dict, List, Optional

from .cfg import Node
from .loader import AnalysisError, Package, Unit, norm
from .values import Values

VERIF = os.path.dirname(os.path.dirname(os.path.abspath(__file__)))


@dataclass
class Finding:
    property: str
    rule: str
    unit: str
    construct: str
    message: str
    file: str = ""
    line: int = 0
    witness: str = ""

    def key(self):
        return (self.property, self.rule, self.unit, self.construct)

    def text(self) -> str:
        w = f" — {self.witness}" if self.witness else ""
        return (f"{self.file}:{self.line} {self.unit} — {self.rule} {self.message} — "
                f"construct: `{self.construct}`{w}")


class Ctx:
    """Per-run context handed to every rule."""

    def __init__(self, prop: str, pkg: Package, tier: str = "quick"):
        self.prop = prop
        self.pkg = pkg
        self.vals = Values(pkg)
        self.tier = tier
        self.findings: List[Finding] = []
        self.obligations: List[Dict[str, Any]] = []
        self.census: Dict[str, int] = {}
        self.assumptions: List[str] = []
        self.notes: List[str] = []
        self.rules_applied: Dict[str, str] = {}
        self.tables: Dict[str, Any] = {}
        self.floors: List[Any] = []

    # ----------------------------------------------------------- bookkeeping
    def rule(self, rid: str, text: str) -> None:
        self.rules_applied[rid] = text

    def ok(self, rule: str, unit: Any, what: str, **detail: Any) -> None:
        rec = {"rule": rule, "unit": _unit_name(unit), "obligation": what, "held": True}
        rec.update(detail)
        self.obligations.append(rec)

    def fail(self, rule: str, unit: Any, construct: Any, message: str,
             node: Optional[Node] = None, witness: str = "", line: int = 0) -> None:
        text = construct if isinstance(construct, str) else _first(construct)
        u = unit if isinstance(unit, Unit) else None
        ln = line or (node.line if node is not None else 0) or getattr(construct, "lineno", 0) \
            or (u.lineno if u else 0)
        f = Finding(self.prop, rule, _unit_name(unit), text, message,
                    u.file if u else "", ln, witness)
        if f.key() in {g.key() for g in self.findings}:
            return
        self.findings.append(f)
        self.obligations.append({"rule": rule, "unit": f.unit, "obligation": message,
                                 "held": False, "construct": text, "line": ln})

    def check(self, cond: bool, rule: str, unit: Any, construct: Any, what: str,
              node: Optional[Node] = None, witness: str = "", **detail: Any) -> bool:
        if cond:
            self.ok(rule, unit, what, **detail)
        else:
            self.fail(rule, unit, construct, what, node=node, witness=witness)
        return cond

    def count(self, name: str, n: int = 1) -> None:
        self.census[name] = self.census.get(name, 0) + n

    def floor(self, name: str, minimum: int) -> None:
        """Deferred: evaluated by check_floors() when the run found no violation (a
        violation already says what is wrong; a floor guards against vacuous passes)."""
        self.floors.append((name, minimum))

    def check_floors(self) -> None:
        for name, minimum in self.floors:
            self._floor(name, minimum)

    def _floor(self, name: str, minimum: int) -> None:
        got = self.census.get(name, 0)
        if got < minimum:
            raise AnalysisError(
                f"census '{name}' = {got} is below the floor {minimum} confirmed by hand: "
                f"the rule would pass vacuously (anchor moved or renamed?)")

    def assume(self, text: str) -> None:
        if text not in self.assumptions:
            self.assumptions.append(text)

    def note(self, text: str) -> None:
        self.notes.append(text)

    def unit(self, short: str) -> Unit:
        return self.pkg.unit(short)

    def inlined(self, unit: Unit, policy=None, keep=()) -> Unit:
        """The view of ``unit`` with calls of private same-module helpers replaced by their
        bodies (asl.inline): what the function does, wherever the statements were moved."""
        from .inline import default_policy, inlined_view
        return inlined_view(self.pkg, self.vals, unit, policy or default_policy, tuple(keep))


def _unit_name(unit: Any) -> str:
    if isinstance(unit, Unit):
        return unit.short
    return str(unit)


def _first(construct: Any) -> str:
    if isinstance(construct, Node):
        construct = construct.ast if construct.ast is not None else construct.stmt
    if isinstance(construct, ast.AST):
        return " ".join(norm(construct).split("\n", 1)[0].split())
    return str(construct)


# ---------------------------------------------------------------------------
# known findings
# ---------------------------------------------------------------------------


def load_known(path: Optional[str] = None) -> List[Dict[str, Any]]:
    path = path or os.path.join(VERIF, "known_findings.json")
    if not os.path.exists(path):
        return []
    with open(path) as fh:
        data = json.load(fh)
    return data.get("findings", [])


def split_findings(ctx: Ctx, known: List[Dict[str, Any]]):
    open_keys = {}
    for k in known:
        if k.get("status") == "open":
            open_keys[(k["property"], k["rule"], k["unit"], k["construct"])] = k
    new, listed = [], []
    for f in ctx.findings:
        if f.key() in open_keys:
            listed.append((f, open_keys[f.key()]))
        else:
            new.append(f)
    return new, listed


# ---------------------------------------------------------------------------
# evidence
# ---------------------------------------------------------------------------


def write_evidence(ctx: Ctx, level_text: Dict[str, str], wall: float, seed: int,
                   new: List[Finding], listed, evidence_dir: str) -> str:
    os.makedirs(evidence_dir, exist_ok=True)
    held = [o for o in ctx.obligations if o.get("held")]
    distinct = {(o["rule"], o["unit"], o["obligation"]) for o in ctx.obligations}
    samples = []
    seen_rules = set()
    for o in ctx.obligations:  # at least one sample per rule, then fill up
        if o["rule"] not in seen_rules:
            samples.append(o)
            seen_rules.add(o["rule"])
    for o in ctx.obligations:
        if len(samples) >= 60:
            break
        if o not in samples:
            samples.append(o)
    explanation = (
        level_text.get("decided", "") + " NOT DECIDED: " + level_text.get("not_decided", "")
        + " RULES: " + "; ".join(f"{k}: {v}" for k, v in sorted(ctx.rules_applied.items()))
    )
    ev = {
        "property_id": ctx.prop,
        "tier": ctx.tier,
        "seed": seed,
        "level": "other",
        "coverage": {
            "explanation": explanation,
            "obligations": len(ctx.obligations),
            "discharged": len(held),
            "evaluations": max(1, len(ctx.obligations)),
            "distinct_nontrivial": len(distinct),
            "rule": "one obligation per (rule, function, construct) instance found in the "
                    "current source of /repo; distinct = distinct (rule, unit, obligation) triples",
            "samples": samples,
            "exhaustive": True,
            "census": ctx.census,
            "analysed": {
                "repo": ctx.pkg.repo,
                "modules": {m.relpath: m.digest for m in ctx.pkg.modules.values()},
                "units": len([u for u in ctx.pkg.all_units() if not u.is_overload()]),
            },
            "tables": ctx.tables,
            "notes": ctx.notes,
            "checker_cmd": f"/venv/bin/python /verif/check {ctx.prop} --tier {ctx.tier}",
            "trusted_base": [
                "CPython 3.12 semantics of await / async with / try-finally / async generators",
                "the asl CFG builder and origin analysis (/verif/asl)",
            ],
            "known_findings": [f.text() for f, _k in listed],
            "violation_list": [f.text() for f in new],
        },
        "assumptions": ctx.assumptions,
        "wall_s": round(wall, 3),
        "violations": len(new),
    }
    path = os.path.join(evidence_dir, f"{ctx.prop}.json")
    with open(path, "w") as fh:
        json.dump(ev, fh, indent=1, default=str)
    vpath = os.path.join(evidence_dir, f"{ctx.prop}.violations.json")
    if new:
        with open(vpath, "w") as fh:
            json.dump([asdict(f) for f in new], fh, indent=1)
    elif os.path.exists(vpath):
        os.remove(vpath)
    return vpath
