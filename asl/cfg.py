"""
Statement/expression level control-flow graph with event nodes and exception edges.

One CFG per function unit.  Expressions are linearised in evaluation order; every
construct that can transfer control to user code or suspend gets its own node:

  await, yield, aiter/pull (async for / async comprehension), siter/snext (sync for),
  enter/exit_cm (with / async with), call, op (binary / compare / unary / augmented /
  truth test / unpack / format), attr, sub (loads), store, del, branch, return, raise,
  dispatch (try ... except), handler, collect (comprehension element), value nodes for
  lambda / genexp / nested def.

Edges carry a label:
  'n' normal, 't'/'f' branch outcome, 'stop' (iterator exhausted in a for loop /
  comprehension), 'e' exceptional successor, 'h' dispatch -> handler.

`finally` bodies and context-manager exits are *copied* per continuation kind
(normal / exception / return / break / continue), which is exact for structured code.
"""
from __future__ import annotations

import ast
from typing import Any, Dict, List, Optional, Tuple, Iterable

from .loader import AnalysisError, Unit, norm

Frontier = List[Tuple["Node", str]]

RAISING = {
    "await", "yield", "aiter", "pull", "siter", "snext", "enter", "exit_cm",
    "call", "op", "attr", "sub", "raise",
}


class Node:
    __slots__ = ("id", "kind", "ast", "succ", "pred", "regions", "tag", "info", "stmt")

    def __init__(self, id: int, kind: str, astnode: Optional[ast.AST], regions, tag, stmt):
        self.id = id
        self.kind = kind
        self.ast = astnode
        self.succ: List[Tuple[str, "Node"]] = []
        self.pred: List[Tuple[str, "Node"]] = []
        self.regions: Tuple[Tuple[str, ast.AST], ...] = regions
        self.tag: str = tag  # which copy: '' | 'exc' | 'return' | 'break' | 'continue'
        self.info: Dict[str, Any] = {}
        self.stmt: Optional[ast.AST] = stmt

    @property
    def line(self) -> int:
        for cand in (self.ast, self.stmt):
            ln = getattr(cand, "lineno", None)
            if ln:
                return ln
        ctx = self.info.get("cm") or self.info.get("iter")
        return getattr(ctx, "lineno", 0) or 0

    def nsucc(self, *labels: str) -> List["Node"]:
        return [n for (lab, n) in self.succ if not labels or lab in labels]

    def exc_succ(self) -> Optional["Node"]:
        for lab, n in self.succ:
            if lab == "e":
                return n
        return None

    def in_loop(self) -> bool:
        """Inside a loop that can iterate (the one-shot ``while True: ..; break`` blocks that
        asl.inline uses for early returns of an inlined helper are not loops)."""
        return any(k == "loop" and not getattr(a, "asl_once", False) for (k, a) in self.regions)

    def in_region(self, kind: str, astnode: ast.AST) -> bool:
        return any(k == kind and a is astnode for (k, a) in self.regions)

    def text(self) -> str:
        if self.kind in ("enter", "exit_cm"):
            return f"{self.kind}({norm(self.info.get('cm'))})"
        if self.kind in ("pull", "aiter", "siter", "snext"):
            return f"{self.kind}({norm(self.info.get('iter'))})"
        if self.kind == "store":
            return "store(" + ", ".join(norm(t) for t in self.info.get("targets", [])) + ")"
        if self.ast is not None:
            t = norm(self.ast).split("\n", 1)[0]
            return f"{self.kind}({t})"
        return self.kind

    def __repr__(self) -> str:
        return f"<{self.id}:{self.text()}@{self.line}>"


class _Frame:
    __slots__ = ("kind", "ast", "ctx", "depth", "dispatch", "memo", "breaks", "cont", "item", "sync")

    def __init__(self, kind: str, astnode: Optional[ast.AST], ctx, depth: int):
        self.kind = kind  # func | loop | handlers | finally | with
        self.ast = astnode
        self.ctx = ctx  # syntactic context *outside* the construct
        self.depth = depth
        self.dispatch: Optional[Node] = None
        self.memo: Optional[Node] = None
        self.breaks: Frontier = []
        self.cont: Optional[Node] = None
        self.item: Optional[ast.withitem] = None
        self.sync = False


class CFG:
    def __init__(self, unit: Unit):
        self.unit = unit
        self.nodes: List[Node] = []
        self._ctx: Tuple[Tuple[str, ast.AST], ...] = ()
        self._tag = ""
        self._stmt: Optional[ast.AST] = None
        self._frames: List[_Frame] = []
        self.entry = self._new("entry", None)
        self.exit = self._new("exit", None)
        self.raise_exit = self._new("raise_exit", None)
        self._frames.append(_Frame("func", unit.node, (), 0))
        self._cur: Frontier = [(self.entry, "n")]
        self._build()
        for n in self.nodes:
            for lab, s in n.succ:
                s.pred.append((lab, n))
        self._by_ast: Dict[int, List[Node]] = {}
        for n in self.nodes:
            if n.ast is not None:
                self._by_ast.setdefault(id(n.ast), []).append(n)

    # ------------------------------------------------------------------ infra
    def _new(self, kind: str, astnode: Optional[ast.AST], **info: Any) -> Node:
        node = Node(len(self.nodes), kind, astnode, self._ctx, self._tag, self._stmt)
        node.info.update(info)
        self.nodes.append(node)
        return node

    def _link(self, frontier: Frontier, target: Node) -> None:
        for src, lab in frontier:
            if (lab, target) not in src.succ:
                src.succ.append((lab, target))

    def _emit(self, kind: str, astnode: Optional[ast.AST], **info: Any) -> Node:
        """Create a node, link the current frontier to it, make it the frontier."""
        node = self._new(kind, astnode, **info)
        self._link(self._cur, node)
        self._cur = [(node, "n")]
        if kind in RAISING or info.get("may_raise"):
            node.succ.append(("e", self._exc_target()))
        return node

    def nodes_of(self, astnode: ast.AST) -> List[Node]:
        return self._by_ast.get(id(astnode), [])

    # ------------------------------------------------------- exceptional flow
    def _exc_target(self, upto: Optional[int] = None) -> Node:
        frames = self._frames if upto is None else self._frames[:upto]
        for i in range(len(frames) - 1, -1, -1):
            fr = frames[i]
            if fr.kind == "handlers":
                assert fr.dispatch is not None
                return fr.dispatch
            if fr.kind == "finally":
                if fr.memo is None:
                    fr.memo = self._copy_cleanup(i, "exc", lambda: self._exc_target(i))
                return fr.memo
            if fr.kind == "with":
                if fr.memo is None:
                    fr.memo = self._copy_cleanup(i, "exc", lambda: self._exc_target(i))
                return fr.memo
            if fr.kind == "func":
                return self.raise_exit
        return self.raise_exit

    def _copy_cleanup(self, index: int, tag: str, continuation) -> Node:
        """Emit a copy of frame[index]'s cleanup (finally body / cm exit) reached with
        continuation kind ``tag``; returns the entry node of the copy.  The copy is
        built with the frame stack truncated below the frame."""
        fr = self._frames[index]
        saved = (self._frames, self._ctx, self._tag, self._cur, self._stmt)
        self._frames = self._frames[:index]
        self._ctx = fr.ctx
        self._tag = tag
        head = self._new("nop", None, note=f"{fr.kind}-{tag}")
        self._cur = [(head, "n")]
        self._emit_cleanup_body(fr, tag)
        target = continuation()
        if tag == "exc":
            # the in-flight exception keeps propagating after the cleanup ('p' edge)
            if self._cur:
                self._emit("reraise", None, note=f"{fr.kind}-propagate")
            self._link([(n, "p") for (n, _lab) in self._cur], target)
        else:
            self._link(self._cur, target)
        (self._frames, self._ctx, self._tag, self._cur, self._stmt) = saved
        return head

    def _emit_cleanup_body(self, fr: _Frame, tag: str) -> None:
        if fr.kind == "finally":
            assert isinstance(fr.ast, ast.Try)
            self._ctx = fr.ctx + (("finally", fr.ast),)
            self._stmts(fr.ast.finalbody)
        elif fr.kind == "with":
            assert fr.item is not None
            self._stmt = fr.ast
            self._emit(
                "exit_cm", fr.item, cm=fr.item.context_expr, flavour=tag or "normal",
                sync=fr.sync, withstmt=fr.ast,
            )

    def _unwind(self, stop_kind: str) -> _Frame:
        """Emit cleanup copies for return/break/continue from the current position up
        to (not including) the innermost frame of ``stop_kind``; returns that frame."""
        tag = {"func": "return"}.get(stop_kind, self._pending_tag)
        i = len(self._frames) - 1
        saved_frames, saved_ctx, saved_tag = self._frames, self._ctx, self._tag
        try:
            while i >= 0:
                fr = saved_frames[i]
                if fr.kind == stop_kind:
                    return fr
                if fr.kind in ("finally", "with"):
                    self._frames = saved_frames[:i]
                    self._ctx = fr.ctx
                    self._tag = tag
                    self._emit_cleanup_body(fr, tag)
                i -= 1
            raise AnalysisError(f"{self.unit.short}: '{tag}' outside of its construct")
        finally:
            self._frames, self._ctx, self._tag = saved_frames, saved_ctx, saved_tag

    _pending_tag = "break"

    # ------------------------------------------------------------------ build
    def _build(self) -> None:
        node = self.unit.node
        if isinstance(node, ast.Lambda):
            self._stmt = node
            self._expr(node.body)
            self._emit("return", node.body, value=node.body)
            self._link(self._cur, self.exit)
        elif isinstance(node, ast.GeneratorExp):
            self._stmt = node
            self._comprehension(node, node.generators, 0, is_genexp=True)
            self._link(self._cur, self.exit)
        else:
            self._stmts(node.body)  # type: ignore[attr-defined]
            self._link(self._cur, self.exit)

    def _stmts(self, body: Iterable[ast.stmt]) -> None:
        for stmt in body:
            if not self._cur:
                # unreachable code is still built (from an empty frontier) so that
                # rules can see it, e.g. the ``yield`` after ``return`` in __await__
                pass
            self._stmt_one(stmt)

    def _stmt_one(self, s: ast.stmt) -> None:
        prev_stmt = self._stmt
        self._stmt = s
        try:
            self._stmt_dispatch(s)
        finally:
            self._stmt = prev_stmt

    def _stmt_dispatch(self, s: ast.stmt) -> None:
        if isinstance(s, ast.Expr):
            self._expr(s.value)
        elif isinstance(s, ast.Assign):
            self._expr(s.value)
            for t in s.targets:
                self._target_subexprs(t)
            self._emit("store", s, targets=list(s.targets), value=s.value,
                       may_raise=any(not isinstance(t, ast.Name) for t in s.targets))
        elif isinstance(s, ast.AnnAssign):
            if s.value is not None:
                self._expr(s.value)
                self._target_subexprs(s.target)
                self._emit("store", s, targets=[s.target], value=s.value,
                           may_raise=not isinstance(s.target, ast.Name))
        elif isinstance(s, ast.AugAssign):
            self._target_subexprs(s.target)
            self._expr(s.value)
            self._emit("op", s, op="aug", operands=[s.target, s.value])
            self._emit("store", s, targets=[s.target], value=None, aug=True,
                       may_raise=not isinstance(s.target, ast.Name))
        elif isinstance(s, ast.Return):
            if s.value is not None:
                self._expr(s.value)
            self._emit("return", s, value=s.value)
            self._unwind("func")
            self._link(self._cur, self.exit)
            self._cur = []
        elif isinstance(s, ast.Raise):
            if s.exc is not None:
                self._expr(s.exc)
            if s.cause is not None:
                self._expr(s.cause)
            self._emit("raise", s)
            self._cur = []
        elif isinstance(s, ast.Delete):
            for t in s.targets:
                self._target_subexprs(t)
            self._emit("del", s, targets=list(s.targets),
                       may_raise=any(not isinstance(t, ast.Name) for t in s.targets))
        elif isinstance(s, ast.Pass):
            self._emit("nop", s)
        elif isinstance(s, ast.Break) and getattr(s, "asl_inline_return", False):
            # ``return`` of an inlined helper (asl.inline): leaves the inlined block, through
            # any loops / finally blocks of the helper
            self._pending_tag = "break"
            self._emit("nop", s, note="inline-return")
            fr = self._unwind("inline")
            fr.breaks.extend(self._cur)
            self._cur = []
        elif isinstance(s, ast.Break):
            self._pending_tag = "break"
            node = self._emit("nop", s, note="break")
            fr = self._unwind("loop")
            fr.breaks.extend(self._cur)
            self._cur = []
        elif isinstance(s, ast.Continue):
            self._pending_tag = "continue"
            self._emit("nop", s, note="continue")
            fr = self._unwind("loop")
            assert fr.cont is not None
            self._link(self._cur, fr.cont)
            self._cur = []
        elif isinstance(s, ast.If):
            t, f = self._cond(s.test)
            self._cur = t
            self._stmts(s.body)
            after = self._cur
            self._cur = f
            self._stmts(s.orelse)
            self._cur = after + self._cur
        elif isinstance(s, ast.While):
            self._while(s)
        elif isinstance(s, (ast.For, ast.AsyncFor)):
            self._for(s)
        elif isinstance(s, (ast.With, ast.AsyncWith)):
            self._with(s, 0)
        elif isinstance(s, ast.Try):
            self._try(s)
        elif isinstance(s, ast.Assert):
            t, f = self._cond(s.test)
            self._cur = f
            if s.msg is not None:
                self._expr(s.msg)
            self._emit("raise", s, note="assert")
            self._cur = t
        elif isinstance(s, (ast.FunctionDef, ast.AsyncFunctionDef)):
            for d in s.decorator_list:
                self._expr(d)
            for d in list(s.args.defaults) + [k for k in s.args.kw_defaults if k is not None]:
                self._expr(d)
            self._emit("store", s, targets=[ast.Name(id=s.name, ctx=ast.Store())], value=s, nested_def=True)
        elif isinstance(s, (ast.Global, ast.Nonlocal, ast.Import, ast.ImportFrom)):
            self._emit("nop", s)
        else:
            raise AnalysisError(
                f"{self.unit.short}: statement kind {type(s).__name__} at line "
                f"{getattr(s, 'lineno', '?')} is outside the CFG builder's language"
            )

    # ----------------------------------------------------------------- loops
    def _while(self, s: ast.While) -> None:
        if getattr(s, "asl_once", False):
            # the body of an inlined helper: a block that is left by its (inline-)returns
            outer_ctx = self._ctx
            fr = _Frame("inline", s, outer_ctx, len(self._frames))
            self._frames.append(fr)
            self._ctx = outer_ctx + (("inline", s),)
            self._stmts(s.body)
            self._frames.pop()
            self._ctx = outer_ctx
            self._cur = self._cur + fr.breaks
            return
        head = self._emit("nop", s, note="loop-head")
        outer_ctx = self._ctx
        fr = _Frame("loop", s, outer_ctx, len(self._frames))
        fr.cont = head
        self._frames.append(fr)
        self._ctx = outer_ctx + (("loop", s),)
        const_true = isinstance(s.test, ast.Constant) and bool(s.test.value)
        if const_true:
            t, f = self._cur, []
        else:
            t, f = self._cond(s.test)
        self._cur = t
        self._stmts(s.body)
        self._link(self._cur, head)
        self._frames.pop()
        self._ctx = outer_ctx
        self._cur = f
        if s.orelse:
            self._stmts(s.orelse)
        self._cur = self._cur + fr.breaks

    def _for(self, s: ast.stmt) -> None:
        is_async = isinstance(s, ast.AsyncFor)
        self._expr(s.iter)  # type: ignore[attr-defined]
        self._emit("aiter" if is_async else "siter", s, iter=s.iter)  # type: ignore[attr-defined]
        outer_ctx = self._ctx
        fr = _Frame("loop", s, outer_ctx, len(self._frames))
        self._ctx = outer_ctx + (("loop", s),)
        pull = self._emit("pull" if is_async else "snext", s, iter=s.iter)  # type: ignore[attr-defined]
        fr.cont = pull
        self._frames.append(fr)
        self._target_subexprs(s.target)  # type: ignore[attr-defined]
        self._emit("store", s.target, targets=[s.target], value=None, source=pull,  # type: ignore[attr-defined]
                   may_raise=not isinstance(s.target, ast.Name))  # type: ignore[attr-defined]
        self._stmts(s.body)  # type: ignore[attr-defined]
        self._link(self._cur, pull)
        self._frames.pop()
        self._ctx = outer_ctx
        self._cur = [(pull, "stop")]
        if s.orelse:  # type: ignore[attr-defined]
            self._stmts(s.orelse)  # type: ignore[attr-defined]
        self._cur = self._cur + fr.breaks

    def _comprehension(self, comp: ast.AST, gens: List[ast.comprehension], i: int,
                       is_genexp: bool = False) -> None:
        """Inline expansion of a list/set/dict comprehension (or the body of a
        generator-expression unit) as nested loops."""
        if i == 0 and not is_genexp:
            self._emit("nop", comp, note="comp-start")
        if i == len(gens):
            if isinstance(comp, ast.DictComp):
                self._expr(comp.key)
                self._expr(comp.value)
                self._emit("collect", comp, elements=[comp.key, comp.value])
            elif is_genexp:
                self._expr(comp.elt)  # type: ignore[attr-defined]
                self._emit("yield", comp, value=comp.elt, genexp=True)  # type: ignore[attr-defined]
            else:
                self._expr(comp.elt)  # type: ignore[attr-defined]
                self._emit("collect", comp, elements=[comp.elt])  # type: ignore[attr-defined]
            return
        g = gens[i]
        if not (is_genexp and i == 0):
            self._expr(g.iter)
        self._emit("aiter" if g.is_async else "siter", g, iter=g.iter, comp=comp)
        outer_ctx = self._ctx
        self._ctx = outer_ctx + (("loop", g),)
        pull = self._emit("pull" if g.is_async else "snext", g, iter=g.iter, comp=comp)
        self._target_subexprs(g.target)
        self._emit("store", g.target, targets=[g.target], value=None, source=pull,
                   may_raise=not isinstance(g.target, ast.Name))
        skip: Frontier = []
        for cond in g.ifs:
            t, f = self._cond(cond)
            skip += f
            self._cur = t
        self._comprehension(comp, gens, i + 1, is_genexp)
        self._link(self._cur + skip, pull)
        self._ctx = outer_ctx
        self._cur = [(pull, "stop")]

    # ------------------------------------------------------------ with / try
    def _with(self, s: ast.stmt, index: int) -> None:
        items = s.items  # type: ignore[attr-defined]
        if index == len(items):
            self._stmts(s.body)  # type: ignore[attr-defined]
            return
        item = items[index]
        sync = isinstance(s, ast.With)
        self._expr(item.context_expr)
        prev_stmt, self._stmt = self._stmt, s
        self._emit("enter", item, cm=item.context_expr, sync=sync, withstmt=s)
        outer_ctx = self._ctx
        fr = _Frame("with", s, outer_ctx, len(self._frames))
        fr.item = item
        fr.sync = sync
        self._frames.append(fr)
        self._ctx = outer_ctx + (("with", item),)
        if item.optional_vars is not None:
            self._target_subexprs(item.optional_vars)
            self._emit("store", item.optional_vars, targets=[item.optional_vars], value=None,
                       source_enter=item)
        self._stmt = prev_stmt
        self._with(s, index + 1)
        self._frames.pop()
        self._ctx = outer_ctx
        if self._cur:
            self._stmt = s
            self._emit("exit_cm", item, cm=item.context_expr, flavour="normal", sync=sync, withstmt=s)
            self._stmt = prev_stmt

    def _try(self, s: ast.Try) -> None:
        outer_ctx = self._ctx
        fin: Optional[_Frame] = None
        if s.finalbody:
            fin = _Frame("finally", s, outer_ctx, len(self._frames))
            self._frames.append(fin)
        after: Frontier = []
        if s.handlers:
            hf = _Frame("handlers", s, outer_ctx, len(self._frames))
            # the dispatch node lives outside the protected region
            saved_ctx = self._ctx
            self._ctx = outer_ctx
            disp = self._new("dispatch", s)
            self._ctx = saved_ctx
            hf.dispatch = disp
            self._frames.append(hf)
            self._ctx = outer_ctx + (("try_body", s),)
            self._stmts(s.body)
            self._frames.pop()
            # else clause: exceptions there are not handled by these handlers
            self._ctx = outer_ctx + (("else", s),)
            self._stmts(s.orelse)
            after += self._cur
            catch_all = False
            for h in s.handlers:
                self._ctx = outer_ctx + (("handler", h),)
                self._stmt = h
                hn = self._new("handler", h, type=h.type, name=h.name)
                disp.succ.append(("h", hn))
                self._cur = [(hn, "n")]
                self._stmts(h.body)
                after += self._cur
                if h.type is None or (isinstance(h.type, ast.Name) and h.type.id == "BaseException"):
                    catch_all = True
            self._ctx = outer_ctx
            if not catch_all:
                disp.succ.append(("e", self._exc_target()))
        else:
            self._ctx = outer_ctx + (("try_body", s),)
            self._stmts(s.body)
            self._ctx = outer_ctx + (("else", s),)
            self._stmts(s.orelse)
            after += self._cur
        self._ctx = outer_ctx
        if fin is not None:
            self._frames.pop()
            self._cur = after
            if after:
                self._ctx = outer_ctx + (("finally", s),)
                self._stmts(s.finalbody)
                self._ctx = outer_ctx
        else:
            self._cur = after

    # ----------------------------------------------------------- expressions
    def _target_subexprs(self, t: ast.AST) -> None:
        """Evaluate the sub-expressions of an assignment target (not the store)."""
        if isinstance(t, ast.Attribute):
            self._expr(t.value)
        elif isinstance(t, ast.Subscript):
            self._expr(t.value)
            self._expr(t.slice)
        elif isinstance(t, (ast.Tuple, ast.List)):
            for e in t.elts:
                self._target_subexprs(e)
        elif isinstance(t, ast.Starred):
            self._target_subexprs(t.value)

    def _cond(self, e: ast.AST) -> Tuple[Frontier, Frontier]:
        """Evaluate ``e`` as a condition; returns (true frontier, false frontier)."""
        if isinstance(e, ast.UnaryOp) and isinstance(e.op, ast.Not):
            t, f = self._cond(e.operand)
            return f, t
        if isinstance(e, ast.BoolOp):
            trues: Frontier = []
            falses: Frontier = []
            for k, v in enumerate(e.values):
                t, f = self._cond(v)
                last = k == len(e.values) - 1
                if isinstance(e.op, ast.And):
                    falses += f
                    if last:
                        trues += t
                    else:
                        self._cur = t
                else:
                    trues += t
                    if last:
                        falses += f
                    else:
                        self._cur = f
            return trues, falses
        if isinstance(e, ast.Constant):
            node = self._emit("branch", e, const=bool(e.value))
            return ([(node, "t")], []) if e.value else ([], [(node, "f")])
        self._expr(e)
        if not _is_plain_bool(e):
            self._emit("op", e, op="truth", operands=[e])
        node = self._emit("branch", e)
        return [(node, "t")], [(node, "f")]

    def _exprs(self, es: Iterable[Optional[ast.AST]]) -> None:
        for e in es:
            if e is not None:
                self._expr(e)

    def _expr(self, e: ast.AST) -> None:
        if isinstance(e, (ast.Constant, ast.Name)):
            return
        if isinstance(e, ast.Await):
            self._expr(e.value)
            self._emit("await", e, value=e.value)
        elif isinstance(e, ast.Yield):
            if e.value is not None:
                self._expr(e.value)
            self._emit("yield", e, value=e.value)
        elif isinstance(e, ast.YieldFrom):
            self._expr(e.value)
            self._emit("yield", e, value=e.value, yield_from=True)
        elif isinstance(e, ast.Call):
            self._expr(e.func)
            for a in e.args:
                self._expr(a.value if isinstance(a, ast.Starred) else a)
            for k in e.keywords:
                self._expr(k.value)
            self._emit("call", e)
        elif isinstance(e, ast.Attribute):
            self._expr(e.value)
            self._emit("attr", e)
        elif isinstance(e, ast.Subscript):
            self._expr(e.value)
            self._expr(e.slice)
            self._emit("sub", e)
        elif isinstance(e, ast.Slice):
            self._exprs([e.lower, e.upper, e.step])
        elif isinstance(e, ast.BinOp):
            self._expr(e.left)
            self._expr(e.right)
            self._emit("op", e, op=type(e.op).__name__, operands=[e.left, e.right])
        elif isinstance(e, ast.Compare):
            self._expr(e.left)
            for c in e.comparators:
                self._expr(c)
            if not all(isinstance(o, (ast.Is, ast.IsNot)) for o in e.ops):
                self._emit("op", e, op="compare", operands=[e.left] + list(e.comparators))
        elif isinstance(e, ast.UnaryOp):
            self._expr(e.operand)
            self._emit("op", e, op="not" if isinstance(e.op, ast.Not) else type(e.op).__name__,
                       operands=[e.operand])
        elif isinstance(e, ast.BoolOp):
            t, f = self._cond(e)
            self._cur = t + f
        elif isinstance(e, ast.IfExp):
            t, f = self._cond(e.test)
            self._cur = t
            self._expr(e.body)
            after = self._cur
            self._cur = f
            self._expr(e.orelse)
            self._cur = after + self._cur
        elif isinstance(e, ast.NamedExpr):
            self._expr(e.value)
            self._emit("store", e, targets=[e.target], value=e.value)
        elif isinstance(e, (ast.Tuple, ast.List, ast.Set)):
            for el in e.elts:
                if isinstance(el, ast.Starred):
                    self._expr(el.value)
                    self._emit("op", el, op="unpack", operands=[el.value])
                else:
                    self._expr(el)
        elif isinstance(e, ast.Dict):
            for k, v in zip(e.keys, e.values):
                if k is None:
                    self._expr(v)
                    self._emit("op", v, op="unpack", operands=[v])
                else:
                    self._expr(k)
                    self._expr(v)
        elif isinstance(e, ast.Starred):
            self._expr(e.value)
        elif isinstance(e, ast.JoinedStr):
            for v in e.values:
                if isinstance(v, ast.FormattedValue):
                    self._expr(v.value)
                    self._emit("op", v, op="format", operands=[v.value])
        elif isinstance(e, ast.FormattedValue):
            self._expr(e.value)
        elif isinstance(e, ast.Lambda):
            for d in list(e.args.defaults) + [k for k in e.args.kw_defaults if k is not None]:
                self._expr(d)
            self._emit("closure", e)
        elif isinstance(e, ast.GeneratorExp):
            self._expr(e.generators[0].iter)
            self._emit("closure", e)
        elif isinstance(e, (ast.ListComp, ast.SetComp, ast.DictComp)):
            self._comprehension(e, e.generators, 0)
        else:
            raise AnalysisError(
                f"{self.unit.short}: expression kind {type(e).__name__} at line "
                f"{getattr(e, 'lineno', '?')} is outside the CFG builder's language"
            )


def _is_plain_bool(e: ast.AST) -> bool:
    """Expressions whose truth test cannot run user code."""
    if isinstance(e, ast.Compare) and all(isinstance(o, (ast.Is, ast.IsNot)) for o in e.ops):
        return True
    if isinstance(e, ast.Call) and isinstance(e.func, ast.Name) and e.func.id in (
        "isinstance", "issubclass", "callable", "hasattr", "iscoroutinefunction",
    ):
        return True
    return False


_CACHE: Dict[int, CFG] = {}


def cfg_of(unit: Unit) -> CFG:
    key = id(unit.node)
    if key not in _CACHE:
        _CACHE[key] = CFG(unit)
    return _CACHE[key]
