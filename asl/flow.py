"""Graph queries on a CFG: dominators, reachability, path search, reaching definitions."""
from __future__ import annotations

import ast
from typing import Callable, Dict, Iterable, List, Optional, Sequence, Set, Tuple

from .cfg import CFG, Node

Pred = Callable[[Node], bool]
NORMAL = ("n", "t", "f", "stop", "h")  # labels that are not exceptional propagation
ALL = None


def succs(node: Node, labels: Optional[Sequence[str]] = None,
          edge_ok: Optional[Callable[[Node, str, Node], bool]] = None) -> List[Node]:
    out = []
    for lab, s in node.succ:
        if labels is not None and lab not in labels:
            continue
        if edge_ok is not None and not edge_ok(node, lab, s):
            continue
        out.append(s)
    return out


def reachable(start: Iterable[Node], labels: Optional[Sequence[str]] = None,
              stop: Optional[Pred] = None,
              edge_ok: Optional[Callable[[Node, str, Node], bool]] = None) -> Set[Node]:
    """Nodes reachable from ``start`` (inclusive).  Nodes satisfying ``stop`` are
    included but not expanded."""
    seen: Set[Node] = set()
    work = list(start)
    while work:
        n = work.pop()
        if n in seen:
            continue
        seen.add(n)
        if stop is not None and stop(n):
            continue
        work.extend(succs(n, labels, edge_ok))
    return seen


def reachable_back(start: Iterable[Node], labels: Optional[Sequence[str]] = None,
                   stop: Optional[Pred] = None) -> Set[Node]:
    seen: Set[Node] = set()
    work = list(start)
    while work:
        n = work.pop()
        if n in seen:
            continue
        seen.add(n)
        if stop is not None and stop(n):
            continue
        for lab, p in n.pred:
            if labels is None or lab in labels:
                work.append(p)
    return seen


def live_nodes(cfg: CFG) -> Set[Node]:
    return reachable([cfg.entry])


def find_path(src: Node, dst_pred: Pred, avoid: Optional[Pred] = None,
              labels: Optional[Sequence[str]] = None,
              edge_ok: Optional[Callable[[Node, str, Node], bool]] = None,
              include_src: bool = False) -> Optional[List[Node]]:
    """Shortest path (BFS) from ``src`` to a node satisfying ``dst_pred`` that passes
    through no node satisfying ``avoid`` (src itself is exempt)."""
    if include_src and dst_pred(src):
        return [src]
    prev: Dict[Node, Optional[Node]] = {src: None}
    queue = [src]
    while queue:
        nxt = []
        for n in queue:
            for s in succs(n, labels, edge_ok):
                if s in prev:
                    continue
                if dst_pred(s):
                    path = [s, n]
                    while prev[path[-1]] is not None:
                        path.append(prev[path[-1]])  # type: ignore[arg-type]
                    return list(reversed(path))
                if avoid is not None and avoid(s):
                    continue
                prev[s] = n
                nxt.append(s)
        queue = nxt
    return None


def dominators(cfg: CFG, labels: Optional[Sequence[str]] = None) -> Dict[Node, Set[Node]]:
    """Classic iterative dominator sets over the nodes reachable from entry."""
    nodes = [n for n in cfg.nodes if n in reachable([cfg.entry], labels)]
    index = {n: i for i, n in enumerate(nodes)}
    full = (1 << len(nodes)) - 1
    dom = {n: full for n in nodes}
    dom[cfg.entry] = 1 << index[cfg.entry]
    changed = True
    while changed:
        changed = False
        for n in nodes:
            if n is cfg.entry:
                continue
            acc = full
            for lab, p in n.pred:
                if p in index and (labels is None or lab in labels):
                    acc &= dom[p]
            new = acc | (1 << index[n])
            if new != dom[n]:
                dom[n] = new
                changed = True
    return {n: {m for m in nodes if dom[n] >> index[m] & 1} for n in nodes}


def dominates(doms: Dict[Node, Set[Node]], a: Node, b: Node) -> bool:
    return b in doms and a in doms[b]


def every_path_passes(src: Node, dst_pred: Pred, through: Pred,
                      labels: Optional[Sequence[str]] = None) -> Optional[List[Node]]:
    """None if every path src -> dst passes a ``through`` node; otherwise a witness
    path that avoids all of them."""
    return find_path(src, dst_pred, avoid=through, labels=labels)


def pretty_path(path: Optional[List[Node]], limit: int = 12) -> str:
    if not path:
        return ""
    items = [f"L{n.line}:{n.text()}" for n in path if n.kind not in ("nop",)]
    if len(items) > limit:
        items = items[: limit // 2] + ["..."] + items[-limit // 2 :]
    return " -> ".join(items)


# ---------------------------------------------------------------------------
# reaching definitions over simple names
# ---------------------------------------------------------------------------


def target_names(t: ast.AST) -> List[str]:
    out: List[str] = []
    if isinstance(t, ast.Name):
        out.append(t.id)
    elif isinstance(t, (ast.Tuple, ast.List)):
        for e in t.elts:
            out.extend(target_names(e))
    elif isinstance(t, ast.Starred):
        out.extend(target_names(t.value))
    return out


def node_defs(n: Node) -> List[str]:
    if n.kind == "store":
        out: List[str] = []
        for t in n.info.get("targets", []):
            out.extend(target_names(t))
        return out
    if n.kind == "handler" and n.info.get("name"):
        return [n.info["name"]]
    if n.kind == "del":
        out = []
        for t in n.info.get("targets", []):
            out.extend(target_names(t))
        return out
    return []


class ReachingDefs:
    """For each node, which store nodes may define each local name on entry to it.
    Parameters are represented by the CFG entry node."""

    def __init__(self, cfg: CFG):
        self.cfg = cfg
        nodes = cfg.nodes
        self.in_: Dict[Node, Dict[str, frozenset]] = {n: {} for n in nodes}
        params = cfg.unit.param_names()
        start = {p: frozenset([cfg.entry]) for p in params}
        out: Dict[Node, Dict[str, frozenset]] = {n: {} for n in nodes}
        out[cfg.entry] = dict(start)
        work = [s for _, s in cfg.entry.succ]
        inwork = set(work)
        while work:
            n = work.pop()
            inwork.discard(n)
            merged: Dict[str, set] = {}
            for _lab, p in n.pred:
                for name, defs in out[p].items():
                    merged.setdefault(name, set()).update(defs)
            new_in = {k: frozenset(v) for k, v in merged.items()}
            new_out = dict(new_in)
            for name in node_defs(n):
                new_out[name] = frozenset([n])
            # a raising node's own definition does not happen on its 'e' edge; stores
            # are separate nodes, so this only matters for tuple-unpack stores (ignored)
            if new_in != self.in_[n] or new_out != out[n]:
                self.in_[n] = new_in
                out[n] = new_out
                for _lab, s in n.succ:
                    if s not in inwork:
                        work.append(s)
                        inwork.add(s)
        self.out = out

    def defs_at(self, node: Node, name: str) -> frozenset:
        return self.in_.get(node, {}).get(name, frozenset())


_RD: Dict[int, ReachingDefs] = {}


def reaching(cfg: CFG) -> ReachingDefs:
    # stored on the CFG object itself: an id()-keyed table could serve a collected CFG's
    # analysis to a new CFG that was given the same address
    rd = cfg.__dict__.get("_reaching")
    if rd is None:
        rd = cfg.__dict__["_reaching"] = ReachingDefs(cfg)
    return rd
