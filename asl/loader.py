"""
Front end: parse /repo/asyncstdlib/*.py, build module symbol tables, function units,
class tables, and resolve names across the package.

Nothing under the analysed repository is imported or executed.
"""
from __future__ import annotations

import ast
import copy
import builtins as _pybuiltins
import hashlib
import os
from dataclasses import dataclass, field
from typing import Dict, List, Optional, Tuple, Iterator, Any

PKG = "asyncstdlib"


class AnalysisError(Exception):
    """The engine cannot look (unparsable, vanished anchor, outside its language)."""


def norm(node: Optional[ast.AST]) -> str:
    """Position-independent text of a construct (used as finding key)."""
    if node is None:
        return ""
    try:
        return ast.unparse(node)
    except Exception:  # pragma: no cover
        return ast.dump(node)


def first_line(node: ast.AST) -> str:
    text = norm(node)
    return text.split("\n", 1)[0]


@dataclass
class Resolved:
    """What a name/attribute chain denotes."""

    kind: str  # 'lib' | 'builtin' | 'stdlib' | 'unknown' | 'local' | 'param' | 'free'
    qual: str = ""  # lib: 'asyncstdlib._core.aiter'; stdlib: 'heapq.heappop'; builtin: 'len'
    node: Optional[ast.AST] = None  # definition node for lib objects

    def __repr__(self) -> str:
        return f"{self.kind}:{self.qual}"


@dataclass
class Unit:
    """A function-like body: def / async def / lambda / generator expression."""

    module: "Module"
    qualname: str  # e.g. 'Tee.aclose', 'lru_cache.lru_decorator'
    node: ast.AST
    kind: str  # 'sync' | 'coroutine' | 'asyncgen' | 'generator' | 'lambda' | 'genexp' | 'agenexp'
    cls: Optional["ClassInfo"] = None
    parent: Optional["Unit"] = None
    decorators: List[str] = field(default_factory=list)

    @property
    def fq(self) -> str:
        return f"{self.module.name}.{self.qualname}"

    @property
    def short(self) -> str:
        return f"{self.module.short}.{self.qualname}"

    @property
    def file(self) -> str:
        return self.module.relpath

    @property
    def lineno(self) -> int:
        return getattr(self.node, "lineno", 0)

    def params(self) -> List[ast.arg]:
        if isinstance(self.node, ast.GeneratorExp):
            return []
        a = self.node.args  # type: ignore[attr-defined]
        out = list(a.posonlyargs) + list(a.args)
        if a.vararg:
            out.append(a.vararg)
        out += list(a.kwonlyargs)
        if a.kwarg:
            out.append(a.kwarg)
        return out

    def param_names(self) -> List[str]:
        if isinstance(self.node, (ast.GeneratorExp,)):
            return []
        return [p.arg for p in self.params()]

    def is_method(self) -> bool:
        return self.cls is not None and self.parent is None

    def is_static(self) -> bool:
        return "staticmethod" in self.decorators

    def is_classmethod(self) -> bool:
        return "classmethod" in self.decorators

    def is_overload(self) -> bool:
        return "overload" in self.decorators

    def is_property(self) -> bool:
        return "property" in self.decorators


@dataclass
class ClassInfo:
    module: "Module"
    name: str
    node: ast.ClassDef
    bases: List[str]
    slots: Optional[List[str]]
    methods: Dict[str, Unit] = field(default_factory=dict)

    @property
    def fq(self) -> str:
        return f"{self.module.name}.{self.name}"

    def mangle(self, attr: str) -> str:
        if attr.startswith("__") and not attr.endswith("__"):
            return f"_{self.name.lstrip('_')}{attr}"
        return attr



def _binding_annotation(outer: ast.AST, name: str, stores: List[ast.AST], rest: List[ast.AST]) -> Optional[ast.expr]:
    """the annotation a lifted closure's parameter gets: that of the enclosing function's parameter / annotated
    assignment it stands for, or the container type evident from the display it is assigned (``(*(aiter(x) for ..),)``
    is a tuple of async iterators)"""
    import copy as _copy
    oa = outer.args          # type: ignore[attr-defined]
    for p in list(oa.posonlyargs) + list(oa.args) + list(oa.kwonlyargs):
        if p.arg == name:
            return _copy.deepcopy(p.annotation)
    if len(stores) != 1:
        return None
    for st in rest:
        if isinstance(st, ast.AnnAssign) and st.target is stores[0]:
            return _copy.deepcopy(st.annotation)
        if isinstance(st, ast.Assign) and len(st.targets) == 1 and st.targets[0] is stores[0]:
            v = st.value
            head = {ast.Tuple: "Tuple", ast.List: "List", ast.ListComp: "List"}.get(type(v))
            if head is None:
                return None
            elts = [v.elt] if isinstance(v, ast.ListComp) else list(v.elts)          # type: ignore[attr-defined]
            elts = [e.value if isinstance(e, ast.Starred) else e for e in elts]
            elts = [e.elt if isinstance(e, (ast.GeneratorExp, ast.ListComp)) else e for e in elts]
            iters = bool(elts) and all(isinstance(e, ast.Call) and isinstance(e.func, ast.Name) and e.func.id == "aiter" for e in elts)
            text = f"{head}[AsyncIterator[Any], ...]" if iters and head == "Tuple" else \
                f"{head}[AsyncIterator[Any]]" if iters else f"{head}[Any, ...]" if head == "Tuple" else f"{head}[Any]"
            return ast.copy_location(ast.parse(text, mode="eval").body, st)
    return None


def _lift_generator_closures(tree: ast.Module) -> None:
    """Normalisation at load time: a function defined inside a module-level function, called there by its name only and
    reading variables of the enclosing function, is a private helper written as a closure.  The rules and tables know such
    helpers as module-level functions with parameters (``_zip_inner(aiters)``), so the closure is lambda-lifted: it moves
    to module level as ``_<outer>__<name>(free variables, own parameters)`` and each call ``name(args)`` becomes
    ``_<outer>__<name>(free variables, args)``.  Only done where that is evidently the same program: the closure has plain
    positional parameters only, no decorators, no ``nonlocal`` / ``global`` declarations, no nested function and does not
    refer to itself; it is not defined inside a loop; its name is used in the enclosing function in call position only
    (with plain positional arguments); every free variable is bound in the enclosing function (as a parameter or by
    assignments) only textually *before* the closure, is never deleted there and is not bound inside the closure - so the
    value the closure reads while it runs is the value at the time of the call."""
    new_body: List[ast.stmt] = []
    for outer in tree.body:
        new_body.append(outer)
        if not isinstance(outer, (ast.FunctionDef, ast.AsyncFunctionDef)):
            continue
        # closures at statement level of the function: directly in its body or in a with / try / if block, not in a loop
        found: List[Tuple[ast.AST, List[ast.stmt]]] = []

        def scan(body: List[ast.stmt]) -> None:
            for st in body:
                if isinstance(st, (ast.FunctionDef, ast.AsyncFunctionDef)):
                    found.append((st, body))
                elif isinstance(st, (ast.With, ast.AsyncWith)):
                    scan(st.body)
                elif isinstance(st, ast.If):
                    scan(st.body)
                    scan(st.orelse)
                elif isinstance(st, ast.Try):
                    scan(st.body)
                    scan(st.orelse)
                    scan(st.finalbody)
                    for h in st.handlers:
                        scan(h.body)
        scan(outer.body)
        for inner, home in found:
            a = inner.args
            if inner.decorator_list or a.posonlyargs or a.kwonlyargs or a.vararg or a.kwarg or a.defaults:
                continue
            own = [p.arg for p in a.args]
            inside = [x for st in inner.body for x in ast.walk(st)]
            is_gen = any(isinstance(x, (ast.Yield, ast.YieldFrom)) for x in inside)
            if is_gen and own:
                continue
            if any(isinstance(x, (ast.Nonlocal, ast.Global, ast.FunctionDef, ast.AsyncFunctionDef, ast.Lambda, ast.ClassDef))
                   for x in inside):
                continue
            if any(isinstance(x, ast.Name) and x.id == inner.name for x in inside):
                continue
            inner_ids = {id(x) for x in ast.walk(inner)}
            rest = [x for x in ast.walk(outer) if id(x) not in inner_ids and x is not outer]
            uses = [x for x in rest if isinstance(x, ast.Name) and x.id == inner.name]
            calls = [x for x in rest if isinstance(x, ast.Call) and isinstance(x.func, ast.Name) and x.func.id == inner.name
                     and len(x.args) == len(own) and not x.keywords and not any(isinstance(y, ast.Starred) for y in x.args)]
            if not calls or len(uses) != len(calls) or any(isinstance(x.ctx, ast.Store) for x in uses):
                continue
            if any(isinstance(x, ast.Nonlocal) for x in rest):
                continue          # another closure might rebind a variable: keep it simple
            bound_inner = {x.id for x in inside if isinstance(x, ast.Name) and isinstance(x.ctx, (ast.Store, ast.Del))} | set(own)
            bound_inner |= {x.name for x in inside if isinstance(x, ast.ExceptHandler) and x.name}
            loaded = []
            for x in inside:
                if isinstance(x, ast.Name) and isinstance(x.ctx, ast.Load) and x.id not in loaded:
                    loaded.append(x.id)
            oa = outer.args
            params = [p.arg for p in list(oa.posonlyargs) + list(oa.args) + list(oa.kwonlyargs)]
            params += [p.arg for p in (oa.vararg, oa.kwarg) if p is not None]
            stores: Dict[str, List[ast.Name]] = {}
            for x in rest:
                if isinstance(x, ast.Name) and isinstance(x.ctx, (ast.Store, ast.Del)):
                    stores.setdefault(x.id, []).append(x)
                elif isinstance(x, ast.ExceptHandler) and x.name:
                    stores.setdefault(x.name, []).append(x)          # type: ignore[arg-type]
                elif isinstance(x, (ast.FunctionDef, ast.AsyncFunctionDef, ast.ClassDef)):
                    stores.setdefault(x.name, []).append(x)          # type: ignore[arg-type]
            free = [n for n in loaded if n not in bound_inner and (n in params or n in stores)]
            ok = True
            for n in free:
                ss = stores.get(n, [])
                ok = ok and all(isinstance(x, ast.Name) and isinstance(x.ctx, ast.Store) and x.lineno < inner.lineno for x in ss)
            if not ok or not free:
                continue
            lifted_name = f"_{outer.name.lstrip('_')}__{inner.name.lstrip('_')}"
            if any(isinstance(n, (ast.FunctionDef, ast.AsyncFunctionDef, ast.ClassDef)) and n.name == lifted_name for n in tree.body):
                continue
            home.remove(inner)
            if not home:
                home.append(ast.copy_location(ast.Pass(), inner))
            inner.name = lifted_name
            inner.args.args = [ast.copy_location(ast.arg(arg=n, annotation=_binding_annotation(outer, n, stores.get(n, []), rest)),
                                                 inner) for n in free] + list(a.args)
            for c in calls:
                c.func.id = lifted_name          # type: ignore[attr-defined]
                c.args = [ast.copy_location(ast.Name(id=n, ctx=ast.Load()), c) for n in free] + list(c.args)
            new_body.append(inner)
    tree.body[:] = new_body
    ast.fix_missing_locations(tree)


def _unalias_methods(tree: ast.Module) -> None:
    """Normalisation at load time: ``alias = method`` in a class body, where ``method`` is an undecorated method with plain
    positional parameters defined earlier in the same body, is a second name for that method; it becomes the forwarding
    ``def alias(self, ..): return self.method(..)`` the rules know (same calls, same result object)."""
    for cls in [n for n in ast.walk(tree) if isinstance(n, ast.ClassDef)]:
        defined: Dict[str, ast.AST] = {}
        for i, st in enumerate(list(cls.body)):
            if isinstance(st, (ast.FunctionDef, ast.AsyncFunctionDef)):
                defined[st.name] = st
                continue
            if not (isinstance(st, ast.Assign) and len(st.targets) == 1 and isinstance(st.targets[0], ast.Name)
                    and isinstance(st.value, ast.Name) and st.value.id in defined and st.targets[0].id not in defined):
                continue
            target = defined[st.value.id]
            a = target.args          # type: ignore[attr-defined]
            if target.decorator_list or a.posonlyargs or a.kwonlyargs or a.vararg or a.kwarg or a.defaults or not a.args:  # type: ignore[attr-defined]
                continue
            names = [p.arg for p in a.args]
            call = ast.Call(func=ast.Attribute(value=ast.Name(id=names[0], ctx=ast.Load()), attr=st.value.id, ctx=ast.Load()),
                            args=[ast.Name(id=n, ctx=ast.Load()) for n in names[1:]], keywords=[])
            fwd = ast.FunctionDef(name=st.targets[0].id,
                                  args=ast.arguments(posonlyargs=[], args=[ast.arg(arg=n, annotation=None) for n in names], vararg=None,
                                                     kwonlyargs=[], kw_defaults=[], kwarg=None, defaults=[]),
                                  body=[ast.Return(value=call)], decorator_list=[], returns=None, type_comment=None)
            if hasattr(fwd, "type_params"):
                fwd.type_params = []
            fwd = ast.copy_location(fwd, st)
            for sub in ast.walk(fwd):
                ast.copy_location(sub, st)
            cls.body[cls.body.index(st)] = fwd
            defined[fwd.name] = fwd
    ast.fix_missing_locations(tree)


def _split_mode_helpers(tree: ast.Module) -> None:
    """Normalisation at load time: a private module-level generator that takes a *mode flag* - a parameter annotated
    ``bool`` that it only ever truth-tests - and has one call site passing a non-constant flag is two helpers merged into one.  The rule tables know
    the two (``_zip_inner`` / ``_zip_inner_strict``), so the merge is undone: two specialised copies with the flag folded
    to False / True (dead branches then never enter the CFG), and the call ``_h(a, flag)`` becomes
    ``_h(a) if not flag else _h__on(a)``.  Only done where that is evidently the same program: the flag parameter is
    never stored, passed on or compared, the other arguments of the call are plain names (so evaluating the flag first
    changes nothing), and the helper is referenced nowhere else."""
    funcs = {n.name: n for n in tree.body if isinstance(n, (ast.FunctionDef, ast.AsyncFunctionDef))
             and n.name.startswith("_") and not n.name.startswith("__") and not n.decorator_list}
    if not funcs:
        return
    refs: Dict[str, List[ast.AST]] = {}
    parents: Dict[int, ast.AST] = {}
    for node in ast.walk(tree):
        for ch in ast.iter_child_nodes(node):
            parents[id(ch)] = node
        if isinstance(node, ast.Name) and node.id in funcs:
            refs.setdefault(node.id, []).append(node)
    for name, fn in funcs.items():
        uses = refs.get(name, [])
        if len(uses) != 1:
            continue
        call = parents.get(id(uses[0]))
        if not (isinstance(call, ast.Call) and call.func is uses[0]) or call.keywords \
                or any(isinstance(a, ast.Starred) for a in call.args):
            continue
        a = fn.args
        if a.vararg or a.kwarg or a.kwonlyargs or a.posonlyargs or a.defaults or len(a.args) < 2 or len(call.args) != len(a.args):
            continue
        if not any(isinstance(x, (ast.Yield, ast.YieldFrom)) for x in ast.walk(fn)):
            continue  # (a plain function or coroutine is seen through by the inlined views; only generators need this)
        for k in range(1, len(a.args)):
            flag, actual = a.args[k].arg, call.args[k]
            if isinstance(actual, ast.Constant) or not all(isinstance(x, ast.Name) for i, x in enumerate(call.args) if i != k):
                continue
            ann = a.args[k].annotation
            if not (isinstance(ann, ast.Name) and ann.id == "bool"):
                continue  # (the truth value of anything but a bool may change between the call and the test)
            if not _only_truth_tested(fn, flag):
                continue
            variants = []
            for value, suffix in ((False, ""), (True, "__on")):
                v = copy.deepcopy(fn)
                v.name = fn.name + suffix
                del v.args.args[k]
                _FoldName(flag, value).visit(v)
                variants.append(v)
            at = tree.body.index(fn)
            tree.body[at:at + 1] = variants

            def mk(v):
                return ast.copy_location(ast.Call(func=ast.copy_location(ast.Name(id=v.name, ctx=ast.Load()), call),
                                                  args=[copy.deepcopy(x) for i, x in enumerate(call.args) if i != k], keywords=[]), call)
            new = ast.copy_location(ast.IfExp(test=ast.copy_location(ast.UnaryOp(op=ast.Not(), operand=actual), call),
                                              body=mk(variants[0]), orelse=mk(variants[1])), call)
            holder = parents.get(id(call))
            for field, val in ast.iter_fields(holder):
                if val is call:
                    setattr(holder, field, new)
                elif isinstance(val, list) and call in val:
                    val[val.index(call)] = new
            ast.fix_missing_locations(tree)
            break


class _FoldName(ast.NodeTransformer):
    """Replace loads of one local by a constant and fold what that decides: ``if`` / conditional expressions with a
    constant test keep the taken arm only, and nothing after a jump stays in its block."""

    def __init__(self, name: str, value: bool):
        self.name, self.value = name, value

    def visit_Name(self, node: ast.Name):
        if node.id == self.name and isinstance(node.ctx, ast.Load):
            return ast.copy_location(ast.Constant(value=self.value), node)
        return node

    @staticmethod
    def _const(e: ast.AST):
        if isinstance(e, ast.Constant) and isinstance(e.value, bool):
            return e.value
        if isinstance(e, ast.UnaryOp) and isinstance(e.op, ast.Not):
            v = _FoldName._const(e.operand)
            return None if v is None else (not v)
        return None

    def visit_UnaryOp(self, node: ast.UnaryOp):
        self.generic_visit(node)
        v = self._const(node)
        return ast.copy_location(ast.Constant(value=v), node) if v is not None else node

    def visit_BoolOp(self, node: ast.BoolOp):
        self.generic_visit(node)
        is_and = isinstance(node.op, ast.And)
        values = []
        for v in node.values:
            c = self._const(v)
            if c is None:
                values.append(v)
            elif c != is_and:  # False in an `and` / True in an `or` decides it (operands before it have run)
                values.append(v)
                break
        if not values:
            return ast.copy_location(ast.Constant(value=is_and), node)
        if len(values) == 1:
            return values[0]
        node.values = values
        return node

    def visit_IfExp(self, node: ast.IfExp):
        self.generic_visit(node)
        c = self._const(node.test)
        return node if c is None else (node.body if c else node.orelse)

    def _block(self, stmts):
        out = []
        for st in stmts:
            r = self.visit(st)
            for x in (r if isinstance(r, list) else [r] if r is not None else []):
                out.append(x)
                if isinstance(x, (ast.Return, ast.Raise, ast.Continue, ast.Break)):
                    return out
        return out

    def visit_If(self, node: ast.If):
        node.test = self.visit(node.test)
        c = self._const(node.test)
        if c is None:
            node.body = self._block(node.body) or [ast.copy_location(ast.Pass(), node)]
            node.orelse = self._block(node.orelse)
            return node
        return self._block(node.body if c else node.orelse)

    def generic_visit(self, node):
        for field in ("body", "orelse", "finalbody"):
            val = getattr(node, field, None)
            if isinstance(val, list) and val and isinstance(val[0], ast.stmt):
                setattr(node, field, self._block(val) or ([ast.copy_location(ast.Pass(), node)] if field == "body" else []))
        for field, val in ast.iter_fields(node):
            if field in ("body", "orelse", "finalbody") and isinstance(val, list) and (not val or isinstance(val[0], ast.stmt)):
                continue
            if isinstance(val, list):
                new = []
                for x in val:
                    if isinstance(x, ast.AST):
                        r = self.visit(x)
                        if r is None:
                            continue
                        if isinstance(r, list):
                            new.extend(r)
                            continue
                        new.append(r)
                    else:
                        new.append(x)
                val[:] = new
            elif isinstance(val, ast.AST):
                r = self.visit(val)
                if r is None:
                    delattr(node, field)
                else:
                    setattr(node, field, r)
        return node


def _only_truth_tested(fn: ast.AST, name: str) -> bool:
    """Every occurrence of the local ``name`` in ``fn`` is a load in truth-test position (an ``if`` / ``while`` /
    conditional-expression test, possibly under ``not`` / ``and`` / ``or``); nested scopes do not mention it."""
    ok_ids: Set[int] = set()

    def mark(e: ast.AST) -> None:
        if isinstance(e, ast.Name):
            ok_ids.add(id(e))
        elif isinstance(e, ast.UnaryOp) and isinstance(e.op, ast.Not):
            mark(e.operand)
        elif isinstance(e, ast.BoolOp):
            for v in e.values:
                mark(v)
    seen = False
    for node in ast.walk(fn):
        if isinstance(node, (ast.If, ast.While, ast.IfExp)):
            mark(node.test)
        elif isinstance(node, ast.Assert):
            mark(node.test)
    for node in ast.walk(fn):
        if isinstance(node, ast.Name) and node.id == name:
            if not isinstance(node.ctx, ast.Load) or id(node) not in ok_ids:
                return False
            seen = True
        elif isinstance(node, (ast.FunctionDef, ast.AsyncFunctionDef, ast.Lambda)) and node is not fn:
            if any(isinstance(x, ast.Name) and x.id == name for x in ast.walk(node)):
                return False
        elif isinstance(node, (ast.Global, ast.Nonlocal)) and name in node.names:
            return False
    return seen


class Module:
    def __init__(self, pkg: "Package", name: str, path: str, relpath: str):
        self.pkg = pkg
        self.name = name  # 'asyncstdlib.itertools'
        self.short = name.split(".", 1)[1] if "." in name else name
        self.path = path
        self.relpath = relpath
        self.is_package = os.path.basename(path) == "__init__.py"
        with open(path, "r", encoding="utf-8") as fh:
            self.source = fh.read()
        try:
            self.tree = ast.parse(self.source, filename=path)
        except SyntaxError as exc:
            raise AnalysisError(f"cannot parse {relpath}: {exc}") from None
        self.digest = hashlib.sha256(self.source.encode()).hexdigest()[:16]
        _unalias_methods(self.tree)
        _lift_generator_closures(self.tree)
        _split_mode_helpers(self.tree)
        # name -> ('import', module, name) | ('def', node) | ('class', node) | ('assign', value)
        self.symbols: Dict[str, Tuple[Any, ...]] = {}
        self.units: Dict[str, Unit] = {}
        self.classes: Dict[str, ClassInfo] = {}
        self.imports: List[Tuple[str, Optional[str], str, ast.AST]] = []
        self._index()

    # -- indexing ---------------------------------------------------------
    def _abs_module(self, node: ast.ImportFrom) -> str:
        if node.level == 0:
            return node.module or ""
        base = self.name.split(".")
        level = node.level - 1 if self.is_package else node.level
        base = base[: len(base) - level]
        if node.module:
            base.append(node.module)
        return ".".join(base)

    def _index(self) -> None:
        for node in self.tree.body:
            self._index_stmt(node)
        # nested imports (inside functions) are recorded for the import discipline rule
        for node in ast.walk(self.tree):
            if isinstance(node, ast.Import):
                for alias in node.names:
                    self.imports.append((alias.name, None, alias.asname or alias.name, node))
            elif isinstance(node, ast.ImportFrom):
                mod = self._abs_module(node)
                for alias in node.names:
                    self.imports.append((mod, alias.name, alias.asname or alias.name, node))

    def _index_stmt(self, node: ast.stmt) -> None:
        if isinstance(node, ast.Import):
            for alias in node.names:
                local = alias.asname or alias.name.split(".")[0]
                self.symbols[local] = ("module", alias.name if alias.asname else alias.name.split(".")[0])
        elif isinstance(node, ast.ImportFrom):
            mod = self._abs_module(node)
            for alias in node.names:
                self.symbols[alias.asname or alias.name] = ("import", mod, alias.name)
        elif isinstance(node, (ast.FunctionDef, ast.AsyncFunctionDef)):
            unit = self._make_unit(node, node.name, None, None)
            # the *last* definition wins (overloads come first)
            self.symbols[node.name] = ("def", unit)
        elif isinstance(node, ast.ClassDef):
            info = self._make_class(node)
            self.symbols[node.name] = ("class", info)
        elif isinstance(node, ast.Assign):
            for tgt in node.targets:
                if isinstance(tgt, ast.Name):
                    self.symbols[tgt.id] = ("assign", node.value)
        elif isinstance(node, ast.AnnAssign):
            if isinstance(node.target, ast.Name) and node.value is not None:
                self.symbols[node.target.id] = ("assign", node.value)
        elif isinstance(node, (ast.If, ast.Try)):
            for sub in ast.iter_child_nodes(node):
                if isinstance(sub, ast.stmt):
                    self._index_stmt(sub)

    def _make_class(self, node: ast.ClassDef) -> ClassInfo:
        slots: Optional[List[str]] = None
        for stmt in node.body:
            tgt = None
            if isinstance(stmt, ast.Assign) and len(stmt.targets) == 1:
                tgt, val = stmt.targets[0], stmt.value
            elif isinstance(stmt, ast.AnnAssign) and stmt.value is not None:
                tgt, val = stmt.target, stmt.value
            if isinstance(tgt, ast.Name) and tgt.id == "__slots__":
                try:
                    lit = ast.literal_eval(val)
                    slots = [lit] if isinstance(lit, str) else list(lit)
                except Exception:
                    slots = None
        info = ClassInfo(self, node.name, node, [norm(b) for b in node.bases], slots)
        self.classes[node.name] = info
        for stmt in node.body:
            if isinstance(stmt, (ast.FunctionDef, ast.AsyncFunctionDef)):
                unit = self._make_unit(stmt, f"{node.name}.{stmt.name}", info, None)
                if not unit.is_overload():
                    info.methods[stmt.name] = unit
        return info

    def _make_unit(
        self, node: ast.AST, qualname: str, cls: Optional[ClassInfo], parent: Optional[Unit]
    ) -> Unit:
        decorators = []
        for dec in getattr(node, "decorator_list", []):
            d = dec.func if isinstance(dec, ast.Call) else dec
            decorators.append(norm(d).split(".")[-1])
        unit = Unit(self, qualname, node, unit_kind(node), cls, parent, decorators)
        if "overload" in decorators:
            key = f"{qualname}@overload{getattr(node, 'lineno', 0)}"
        else:
            key = qualname
        self.units[key] = unit
        # nested function-like bodies
        for sub in iter_nested_scopes(node):
            if isinstance(sub, (ast.FunctionDef, ast.AsyncFunctionDef)):
                self._make_unit(sub, f"{qualname}.{sub.name}", cls, unit)
            elif isinstance(sub, ast.Lambda):
                self._make_unit(sub, f"{qualname}.<lambda@{sub.lineno}:{sub.col_offset}>", cls, unit)
            elif isinstance(sub, ast.GeneratorExp):
                self._make_unit(sub, f"{qualname}.<genexp@{sub.lineno}:{sub.col_offset}>", cls, unit)
        return unit


def iter_nested_scopes(node: ast.AST) -> Iterator[ast.AST]:
    """Directly nested function-like scopes of ``node`` (not transitively)."""
    stack = list(ast.iter_child_nodes(node))
    while stack:
        sub = stack.pop()
        if isinstance(sub, (ast.FunctionDef, ast.AsyncFunctionDef, ast.Lambda, ast.GeneratorExp)):
            yield sub
            if isinstance(sub, ast.GeneratorExp):
                # the outermost iterable is evaluated in the enclosing scope
                stack.append(sub.generators[0].iter)
            elif not isinstance(sub, ast.Lambda):
                stack.extend(sub.decorator_list)
                stack.extend(d for d in sub.args.defaults)
                stack.extend(d for d in sub.args.kw_defaults if d is not None)
            continue
        if isinstance(sub, ast.ClassDef):
            continue
        stack.extend(ast.iter_child_nodes(sub))


def own_nodes(node: ast.AST) -> Iterator[ast.AST]:
    """All AST nodes executed as part of ``node``'s own body (nested scopes excluded)."""
    if isinstance(node, ast.Lambda):
        roots = [node.body]
    elif isinstance(node, ast.GeneratorExp):
        roots = [node.elt] + [g for g in node.generators]
    else:
        roots = list(node.body)  # type: ignore[attr-defined]
    stack = list(roots)
    while stack:
        sub = stack.pop()
        yield sub
        if isinstance(sub, (ast.FunctionDef, ast.AsyncFunctionDef, ast.Lambda, ast.ClassDef)):
            continue
        if isinstance(sub, ast.GeneratorExp):
            stack.append(sub.generators[0].iter)
            continue
        stack.extend(ast.iter_child_nodes(sub))


def unit_kind(node: ast.AST) -> str:
    if isinstance(node, ast.Lambda):
        return "lambda"
    if isinstance(node, ast.GeneratorExp):
        return "agenexp" if any(g.is_async for g in node.generators) else "genexp"
    has_yield = any(isinstance(n, (ast.Yield, ast.YieldFrom)) for n in own_nodes(node))
    if isinstance(node, ast.AsyncFunctionDef):
        return "asyncgen" if has_yield else "coroutine"
    return "generator" if has_yield else "sync"


_BUILTIN_NAMES = set(dir(_pybuiltins))


class Package:
    def __init__(self, repo: str = "/repo"):
        self.repo = os.path.abspath(repo)
        self.root = os.path.join(self.repo, PKG)
        if not os.path.isdir(self.root):
            raise AnalysisError(f"package directory {self.root} not found")
        self.modules: Dict[str, Module] = {}
        for fname in sorted(os.listdir(self.root)):
            if not fname.endswith(".py"):
                continue
            stem = fname[:-3]
            name = PKG if stem == "__init__" else f"{PKG}.{stem}"
            self.modules[name] = Module(
                self, name, os.path.join(self.root, fname), f"{PKG}/{fname}"
            )

    # -- access -----------------------------------------------------------
    def module(self, short: str) -> Module:
        name = PKG if short in ("", "__init__") else f"{PKG}.{short}"
        if name not in self.modules:
            raise AnalysisError(f"anchored module {name} is missing")
        return self.modules[name]

    def unit(self, short: str) -> Unit:
        """'itertools.Tee.aclose' -> Unit; a vanished anchor is an analysis error.  Private
        helpers that were merely renamed are found again structurally (ANCHOR_FALLBACKS):
        e.g. 'builtins._min_max' is "the library coroutine that builtins.max awaits"."""
        mod, _, qual = short.partition(".")
        m = self.module(mod)
        if qual not in m.units:
            alt = self._unit_or_none(short)
            if alt is not None:
                return alt
            raise AnalysisError(f"anchored function {short} is missing")
        return m.units[qual]

    def has_unit(self, short: str) -> bool:
        mod, _, qual = short.partition(".")
        name = f"{PKG}.{mod}"
        if name in self.modules and qual in self.modules[name].units:
            return True
        try:
            return self._unit_or_none(short) is not None
        except AnalysisError:
            return False

    # (anchor, public unit that uses it, kind of the helper, selector among several candidates)
    ANCHOR_FALLBACKS = {
        "builtins._min_max": ("builtins.max", "coroutine", 0),
        "builtins._zip_inner": ("builtins.zip", "asyncgen", 0),
        "builtins._zip_inner_strict": ("builtins.zip", "asyncgen", 1),
        "builtins.acallable_iterator": ("builtins.iter", "asyncgen", 0),
        "heapq._largest": ("heapq.nlargest", "coroutine", 0),
        "itertools.tee_peer": ("itertools.Tee.__init__", "asyncgen", 0),
        "itertools._repeat": ("itertools.zip_longest", "asyncgen", 0),
        "itertools.chain._chain_iterator": ("itertools.chain.__init__", "asyncgen", 0),
        "heapq._KeyIter.from_iters": ("heapq.merge", "asyncgen", 0),
        "_core._aiter_sync": ("_core.aiter", "asyncgen", 0),
        # the two helpers of the awaitify wrapper, wherever its class keeps them (module level or as static methods):
        # the plain function that builds a coroutine function around a callable, and the coroutine that returns its argument
        "_core.force_async": ("_core.Awaitify.*", "sync", 0, "defines_coroutine"),
        "_core.await_value": ("_core.Awaitify.*", "coroutine", 0),
    }

    def _fallback(self, short: str) -> Optional[Unit]:
        spec = self.ANCHOR_FALLBACKS.get(short)
        if spec is None:
            return None
        user, kind, index = spec[:3]
        pred = spec[3] if len(spec) > 3 else None
        umod, _, uqual = user.partition(".")
        m = self.modules.get(f"{PKG}.{umod}")
        if m is None:
            return None
        if uqual.endswith(".*"):
            if uqual[:-2] not in m.classes:
                return None
            root: ast.AST = m.classes[uqual[:-2]].node
        elif uqual in m.units:
            root = m.units[uqual].node
        else:
            return None
        found: List[Unit] = []
        for call in ast.walk(root):
            if not isinstance(call, ast.Call):
                continue
            cands: List[Unit] = []
            if isinstance(call.func, ast.Name):
                res = self.resolve_global(m, call.func.id)
                if res.kind == "lib":
                    u = self.lib_unit(res.qual)
                    if u is not None:
                        cands.append(u)
            elif isinstance(call.func, ast.Attribute) and call.func.attr.startswith("_") \
                    and not call.func.attr.endswith("__"):
                # the helper became a (static/class) method: ``self._helper(..)`` / ``Cls._helper(..)``
                cands += [u for u in m.units.values() if u.cls is not None and u.parent is None
                          and u.qualname.rsplit(".", 1)[-1] == call.func.attr]
            elif isinstance(call.func, ast.Attribute) and isinstance(call.func.value, ast.Name) and call.func.value.id.startswith("_"):
                # ... or a method of a private namespace class: ``_Helpers.step(..)``
                res = self.resolve_global(m, call.func.value.id)
                info = self.lib_class(res.qual) if res.kind == "lib" else None
                if info is not None and call.func.attr in info.methods:
                    cands.append(info.methods[call.func.attr])
            for u in cands:
                if u.kind == kind and (u.module is m or u.module.short.startswith("_")) and u.parent is None \
                        and not u.is_overload() \
                        and (u.qualname.rsplit(".", 1)[-1].startswith("_") or not self._is_public(u)):
                    if pred == "defines_coroutine" and not any(isinstance(x, ast.AsyncFunctionDef) for x in ast.walk(u.node) if x is not u.node):
                        continue
                    if u not in found:
                        found.append(u)
        found.sort(key=lambda u: u.lineno)
        if index < len(found):
            return found[index]
        return None

    def canonical(self, u: Unit) -> str:
        """Canonical anchor name of a unit: for a renamed private helper / a method of a renamed
        private class that is located structurally this is the name the rule tables use;
        otherwise ``u.short``."""
        cache = self.__dict__.setdefault("_canon", {})
        if not cache:
            for anchor in self.ANCHOR_FALLBACKS:
                mod, _, qual = anchor.partition(".")
                m = self.modules.get(f"{PKG}.{mod}")
                if m is not None and qual in m.units:
                    continue
                alt = self._unit_or_none(anchor)
                if alt is not None:
                    cache[id(alt.node)] = anchor
            for anchor in self.CLASS_FALLBACKS:
                mod, _, cname = anchor.partition(".")
                m = self.modules.get(f"{PKG}.{mod}")
                if m is not None and cname in m.classes:
                    continue
                info = self._class_fallback(anchor)
                if info is not None:
                    cache[("cls", id(info.node))] = anchor
            for anchor in self.NESTED_ANCHORS:
                mod, _, qual = anchor.partition(".")
                m = self.modules.get(f"{PKG}.{mod}")
                if m is not None and qual in m.units:
                    continue
                alt = self._unit_or_none(anchor)
                if alt is not None:
                    cache[id(alt.node)] = anchor
            cache["#"] = True
        top = u
        suffix = ""
        while top.parent is not None:
            suffix = "." + top.qualname.rsplit(".", 1)[-1] + suffix
            top = top.parent
        if id(top.node) in cache:
            return cache[id(top.node)] + suffix
        if top.cls is not None and ("cls", id(top.cls.node)) in cache:
            return cache[("cls", id(top.cls.node))] + "." + top.qualname.rsplit(".", 1)[-1] + suffix
        return u.short

    #: functions nested in an anchored helper that the rules name (found again when the closure became a callable object)
    NESTED_ANCHORS = ("_core.force_async.async_wrapped",)

    def canonical_class(self, info: ClassInfo) -> str:
        """'module.Class' under its anchor name (see canonical)."""
        self.canonical(next(iter(info.methods.values()))) if info.methods else None
        cache = self.__dict__.get("_canon", {})
        return cache.get(("cls", id(info.node)), f"{info.module.short}.{info.name}")

    def _is_public(self, u: Unit) -> bool:
        try:
            names = self.public_names()
        except AnalysisError:
            return False
        return u.qualname in names

    # private classes found again structurally when renamed: (anchor -> where it is referenced,
    # index among the private library classes referenced there, in source order)
    CLASS_FALLBACKS = {
        "heapq._KeyIter": ("heapq.merge", 0),
        "asynctools._BorrowedAsyncIterator": ("asynctools.borrow", 0),
        "asynctools._ScopedAsyncIteratorContext": ("asynctools.scoped_iter", 0, "__aenter__"),
        "asynctools._ScopedAsyncIterator": ("asynctools._ScopedAsyncIteratorContext.__aenter__", 0),
        "functools._FutureCachedPropertyValue": ("functools.CachedProperty.__get__", 0),
        "contextlib._AsyncGeneratorContextManager": ("contextlib.contextmanager", 0),
        "itertools._GroupByState": ("itertools.GroupBy.__init__", 0),
        "itertools._Grouper": ("itertools.GroupBy.__anext__", 0),
        # (the wrapper of a computed value: the class with __await__ that a method of the pending-value class instantiates;
        # it may live in a private module of the package and need not have a private name)
        "functools.AwaitableValue": ("functools._FutureCachedPropertyValue.*", 0, "__await__"),
    }

    def cls(self, short: str) -> ClassInfo:
        mod, _, name = short.partition(".")
        m = self.module(mod)
        if name not in m.classes:
            alt = self._class_fallback(short) or self._relocated_class(short)
            if alt is not None:
                return alt
            raise AnalysisError(f"anchored class {short} is missing")
        return m.classes[name]

    def _relocated_class(self, short: str) -> Optional[ClassInfo]:
        """Last resort for an anchored class that is not where the anchor says: the one class of the package that has its
        name (leading underscores aside), if its old module still imports that name - a class moved to another module of
        the package by a clean-up commit."""
        mod, _, name = short.partition(".")
        base = name.lstrip("_")
        found = [info for m in self.modules.values() for cname, info in m.classes.items() if cname.lstrip("_") == base]
        if len(found) != 1 or found[0].module.short == mod:
            return None
        home = self.modules.get(f"{PKG}.{mod}")
        if home is None:
            return None
        for local in home.symbols:
            res = self.resolve_global(home, local)
            if res.kind == "lib" and res.qual == found[0].fq:
                return found[0]
        return None

    def _class_fallback(self, short: str, _depth: int = 0) -> Optional[ClassInfo]:
        spec = self.CLASS_FALLBACKS.get(short)
        if spec is None or _depth > 3:
            return None
        user, index = spec[0], spec[1]
        must_have = spec[2] if len(spec) > 2 else None
        if user.endswith(".*"):
            try:
                holder = self.cls(user[:-2])
            except AnalysisError:
                return None
            m = holder.module
            roots: List[ast.AST] = [holder.node]
        else:
            try:
                uu = self._unit_or_none(user, _depth + 1)
            except AnalysisError:
                return None
            if uu is None:
                return None
            m = uu.module
            roots = [uu.node]
        found: List[ClassInfo] = []
        nodes = sorted((n for r in roots for n in ast.walk(r) if isinstance(n, ast.Name) and isinstance(n.ctx, ast.Load)),
                       key=lambda n: (n.lineno, n.col_offset))
        for n in nodes:
            res = self.resolve_global(m, n.id)
            if res.kind == "lib" and isinstance(res.node, ast.ClassDef):
                info = self.lib_class(res.qual)
                if info is None or info in found or (must_have is not None and must_have not in info.methods):
                    continue
                local_private = info.module is m and info.name.startswith("_")
                moved = user.endswith(".*") and (info.module is m or info.module.short.startswith("_"))
                if local_private or moved:
                    found.append(info)
        return found[index] if index < len(found) else None

    def _unit_or_none(self, short: str, _depth: int = 0) -> Optional[Unit]:
        mod, _, qual = short.partition(".")
        m = self.modules.get(f"{PKG}.{mod}")
        if m is None:
            return None
        if qual in m.units:
            return m.units[qual]
        cname, _, meth = qual.rpartition(".")
        if cname and "." not in cname:
            info = m.classes.get(cname) or self._class_fallback(f"{mod}.{cname}", _depth)
            if info is not None and meth in info.methods:
                return info.methods[meth]
        found = self._fallback(short) or self._relocated_unit(short)
        if found is None and cname:
            # a function nested in an anchored helper that is found structurally: ``_core.force_async.async_wrapped``
            outer = self._fallback(f"{mod}.{cname}")
            if outer is not None:
                nested = [u for u in outer.module.units.values() if u.parent is outer]
                named = [u for u in nested if u.qualname.rsplit(".", 1)[-1] == meth]
                if named or len(nested) == 1:
                    return (named or nested)[0]
        if found is None and cname and "." not in cname:
            # the closure an anchored factory returned has become an object of a private class: its coroutine ``__call__``
            # (``force_async`` returning ``_ForcedAsync(call)`` instead of a nested ``async def``)
            outer = m.units.get(cname) or self._fallback(f"{mod}.{cname}")
            if outer is not None and not any(u.parent is outer for u in outer.module.units.values()):
                rets = [x.value for x in own_nodes(outer.node) if isinstance(x, ast.Return) and x.value is not None]
                if len(rets) == 1 and isinstance(rets[0], ast.Call):
                    try:
                        res = self.resolve_expr_global(outer.module, rets[0].func)
                    except Exception:  # noqa: BLE001
                        res = None
                    info = self.lib_class(res.qual) if res is not None and res.kind == "lib" else None
                    call = info.methods.get("__call__") if info is not None and info.name.startswith("_") else None
                    if call is not None and call.kind == "coroutine":
                        return call
        return found

    def _relocated_unit(self, short: str) -> Optional[Unit]:
        """Last resort for an anchored module-level function that is not where the anchor says: the one function of the
        package with its name (leading underscores aside) and no other of that name - moved to another module, or made a
        static method of a class of its old module."""
        mod, _, qual = short.partition(".")
        if "." in qual:
            return None
        base = qual.lstrip("_")
        if not base:
            return None
        cands = [u for m in self.modules.values() for u in m.units.values()
                 if u.parent is None and u.qualname.rsplit(".", 1)[-1].lstrip("_") == base and not u.is_overload()
                 and (u.cls is None or u.is_static())]
        if len(cands) != 1:
            return None
        u = cands[0]
        if u.cls is not None and u.module.short != mod:
            return None
        return u

    def cls_name(self, short: str) -> str:
        """The actual (possibly renamed) name of an anchored class."""
        return self.cls(short).name

    def all_units(self) -> List[Unit]:
        out = []
        for m in self.modules.values():
            out.extend(m.units.values())
        return out

    def digest(self) -> str:
        h = hashlib.sha256()
        for name in sorted(self.modules):
            h.update(self.modules[name].digest.encode())
        return h.hexdigest()[:16]

    # -- resolution ---------------------------------------------------------
    def resolve_global(self, module: Module, name: str, _depth: int = 0) -> Resolved:
        """Resolve a module-level name, following imports and simple aliases."""
        if _depth > 12:
            return Resolved("unknown", name)
        sym = module.symbols.get(name)
        if sym is None:
            if name in _BUILTIN_NAMES:
                return Resolved("builtin", name)
            return Resolved("unknown", name)
        tag = sym[0]
        if tag == "def":
            return Resolved("lib", f"{module.name}.{name}", sym[1].node)
        if tag == "class":
            return Resolved("lib", f"{module.name}.{name}", sym[1].node)
        if tag == "module":
            mod = sym[1]
            if mod == "builtins":
                return Resolved("builtinmod", "builtins")
            return Resolved("stdlibmod", mod)
        if tag == "import":
            mod, orig = sym[1], sym[2]
            if mod == PKG or mod.startswith(PKG + "."):
                if f"{mod}.{orig}" in self.modules:
                    return Resolved("libmod", f"{mod}.{orig}")  # ``from . import _core``
                target = self.modules.get(mod)
                if target is None:
                    # `from . import x` style
                    sub = self.modules.get(f"{mod}.{orig}")
                    if sub is not None:
                        return Resolved("libmod", sub.name)
                    return Resolved("unknown", f"{mod}.{orig}")
                return self.resolve_global(target, orig, _depth + 1)
            if mod == "builtins":
                return Resolved("builtin", orig)
            return Resolved("stdlib", f"{mod}.{orig}")
        if tag == "assign":
            value = sym[1]
            if isinstance(value, ast.Name) and value.id != name:
                return self.resolve_global(module, value.id, _depth + 1)
            if isinstance(value, ast.Call):
                callee = self.resolve_expr_global(module, value.func, _depth + 1)
                return Resolved("instance", callee.qual if callee.kind in ("lib", "builtin", "stdlib") else "?", value)
            return Resolved("value", f"{module.name}.{name}", value)
        return Resolved("unknown", name)

    def resolve_expr_global(self, module: Module, expr: ast.AST, _depth: int = 0) -> Resolved:
        """Resolve Name / dotted Attribute / Subscript-of-class at module level."""
        if isinstance(expr, ast.Name):
            return self.resolve_global(module, expr.id, _depth)
        if isinstance(expr, ast.Subscript):
            # Generic alias: _KeyIter[Any] -> _KeyIter
            return self.resolve_expr_global(module, expr.value, _depth)
        if isinstance(expr, ast.Attribute):
            base = self.resolve_expr_global(module, expr.value, _depth)
            if base.kind == "builtinmod":
                return Resolved("builtin", expr.attr)
            if base.kind == "stdlibmod":
                return Resolved("stdlib", f"{base.qual}.{expr.attr}")
            if base.kind == "libmod":
                return self.resolve_global(self.modules[base.qual], expr.attr, _depth + 1)
            if base.kind == "lib" and isinstance(base.node, ast.ClassDef):
                mod = self.modules[base.qual.rsplit(".", 1)[0]]
                info = mod.classes.get(base.node.name)
                if info and expr.attr in info.methods:
                    u = info.methods[expr.attr]
                    return Resolved("lib", f"{info.fq}.{expr.attr}", u.node)
            return Resolved("unknown", norm(expr))
        return Resolved("unknown", norm(expr))

    def lib_unit(self, qual: str) -> Optional[Unit]:
        """'asyncstdlib._core.aiter' -> Unit (functions and methods)."""
        for mname, mod in self.modules.items():
            if qual.startswith(mname + "."):
                rest = qual[len(mname) + 1 :]
                if rest in mod.units:
                    return mod.units[rest]
        return None

    def lib_class(self, qual: str) -> Optional[ClassInfo]:
        for mname, mod in self.modules.items():
            if qual.startswith(mname + "."):
                rest = qual[len(mname) + 1 :]
                if rest in mod.classes:
                    return mod.classes[rest]
        return None

    def public_names(self) -> List[str]:
        init = self.modules.get(PKG)
        if init is None:
            raise AnalysisError("asyncstdlib/__init__.py missing")
        sym = init.symbols.get("__all__")
        if not sym or sym[0] != "assign":
            raise AnalysisError("__all__ not found in asyncstdlib/__init__.py")
        try:
            return list(ast.literal_eval(sym[1]))
        except Exception:
            raise AnalysisError("__all__ is not a literal list") from None


# --------------------------------------------------------------------------
# local scoping helper
# --------------------------------------------------------------------------


def local_names(unit: Unit) -> set:
    """Names bound in the unit's own scope (parameters and assignment targets)."""
    names = set(unit.param_names())
    for n in own_nodes(unit.node):
        if isinstance(n, ast.Name) and isinstance(n.ctx, (ast.Store, ast.Del)):
            names.add(n.id)
        elif isinstance(n, (ast.FunctionDef, ast.AsyncFunctionDef, ast.ClassDef)):
            names.add(n.name)
        elif isinstance(n, ast.ExceptHandler) and n.name:
            names.add(n.name)
    if isinstance(unit.node, ast.GeneratorExp):
        for g in unit.node.generators:
            for t in ast.walk(g.target):
                if isinstance(t, ast.Name):
                    names.add(t.id)
    return names


def resolve_name(pkg: Package, unit: Unit, name: str) -> Resolved:
    """Resolve a bare name as seen from inside ``unit``."""
    u: Optional[Unit] = unit
    while u is not None:
        if name in local_names(u):
            if name in u.param_names():
                return Resolved("param" if u is unit else "free", name, u.node)
            # nested function defined in this scope
            for n in own_nodes(u.node):
                if isinstance(n, (ast.FunctionDef, ast.AsyncFunctionDef)) and n.name == name:
                    return Resolved("lib", f"{u.fq}.{name}", n)
            return Resolved("local" if u is unit else "free", name, u.node)
        u = u.parent
    # class-private module names are mangled only inside classes; module-level
    # dunder-prefixed sentinels (``__ANEXT_DEFAULT``) are referenced from functions
    return pkg.resolve_global(unit.module, name)
