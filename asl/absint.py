"""
Finite-domain abstract evaluation.

An abstract value is a Python object drawn from a small closed domain chosen by the
rule (e.g. the classes {NONE, NEG, ZERO, POS, CALLABLE} of a ``maxsize`` argument, or an
order outcome {LT, EQ, GT}).  Expressions are evaluated by *table lookup* supplied by the
rule (``ops``); anything the tables do not cover evaluates to UNKNOWN, and a branch on
UNKNOWN is followed both ways.  No code of the analysed repository is executed.
"""
from __future__ import annotations

import ast
from typing import Any, Callable, Dict, Iterator, List, Optional, Tuple

from .cfg import CFG, Node
from .loader import AnalysisError, norm


class _Unknown:
    def __repr__(self) -> str:
        return "UNKNOWN"


UNKNOWN = _Unknown()


class AbsEval:
    """Evaluate expressions over an environment of abstract values.

    ``ops`` hooks (all optional, return UNKNOWN when not applicable):
      compare(op_name, left, right)  -> bool | UNKNOWN
      call(func_text, args)          -> value | UNKNOWN
      truth(value)                   -> bool | UNKNOWN
      attr(value, name)              -> value | UNKNOWN
      binop(op_name, left, right)    -> value | UNKNOWN
    """

    def __init__(self, ops: Any):
        self.ops = ops

    def eval(self, e: Optional[ast.AST], env: Dict[str, Any]) -> Any:
        if e is None:
            return None
        if isinstance(e, ast.Constant):
            return e.value
        if isinstance(e, ast.Name):
            return env.get(e.id, UNKNOWN)
        if isinstance(e, ast.NamedExpr):
            v = self.eval(e.value, env)
            if isinstance(e.target, ast.Name):
                env[e.target.id] = v
            return v
        if isinstance(e, ast.UnaryOp) and isinstance(e.op, ast.Not):
            t = self.truth(self.eval(e.operand, env))
            return UNKNOWN if t is UNKNOWN else (not t)
        if isinstance(e, ast.UnaryOp) and isinstance(e.op, ast.USub):
            v = self.eval(e.operand, env)
            hook = getattr(self.ops, "neg", None)
            return hook(v) if hook else (-v if isinstance(v, (int, float)) and not isinstance(v, bool) else UNKNOWN)
        if isinstance(e, ast.BoolOp):
            result: Any = None
            for v in e.values:
                val = self.eval(v, env)
                t = self.truth(val)
                if t is UNKNOWN:
                    return UNKNOWN
                result = val
                if isinstance(e.op, ast.And) and not t:
                    return val
                if isinstance(e.op, ast.Or) and t:
                    return val
            return result
        if isinstance(e, ast.IfExp):
            t = self.truth(self.eval(e.test, env))
            if t is UNKNOWN:
                return UNKNOWN
            return self.eval(e.body if t else e.orelse, env)
        if isinstance(e, ast.Compare):
            left = self.eval(e.left, env)
            result = True
            for op, comp in zip(e.ops, e.comparators):
                right = self.eval(comp, env)
                r = self.compare(type(op).__name__, left, right)
                if r is UNKNOWN:
                    return UNKNOWN
                if not r:
                    return False
                left = right
            return result
        if isinstance(e, ast.BinOp):
            hook = getattr(self.ops, "binop", None)
            if hook:
                return hook(type(e.op).__name__, self.eval(e.left, env), self.eval(e.right, env))
            return UNKNOWN
        if isinstance(e, ast.Call):
            hook = getattr(self.ops, "call", None)
            if hook:
                args = [self.eval(a, env) for a in e.args if not isinstance(a, ast.Starred)]
                kwargs = {k.arg: self.eval(k.value, env) for k in e.keywords if k.arg}
                return hook(norm(e.func), args, kwargs, e)
            return UNKNOWN
        if isinstance(e, ast.Attribute):
            hook = getattr(self.ops, "attr", None)
            if hook:
                return hook(self.eval(e.value, env), e.attr, e)
            return UNKNOWN
        if isinstance(e, ast.Tuple):
            vals = [self.eval(x, env) for x in e.elts]
            return UNKNOWN if any(v is UNKNOWN for v in vals) else tuple(vals)
        return UNKNOWN

    def truth(self, v: Any) -> Any:
        if v is UNKNOWN:
            return UNKNOWN
        hook = getattr(self.ops, "truth", None)
        if hook:
            r = hook(v)
            if r is not UNKNOWN:
                return r
        if isinstance(v, (bool, int, str, tuple)) or v is None:
            return bool(v)
        return UNKNOWN

    def compare(self, op: str, left: Any, right: Any) -> Any:
        if left is UNKNOWN or right is UNKNOWN:
            return UNKNOWN
        hook = getattr(self.ops, "compare", None)
        if hook:
            r = hook(op, left, right)
            if r is not UNKNOWN:
                return r
        if op == "Is":
            return left is right
        if op == "IsNot":
            return left is not right
        return UNKNOWN


def walk(cfg: CFG, ev: AbsEval, env: Dict[str, Any], start: Optional[Node] = None,
         on_node: Optional[Callable[[Node, Dict[str, Any]], None]] = None,
         follow_exc: Optional[Callable[[Node, Dict[str, Any]], Any]] = None,
         limit: int = 2000) -> Iterator[Tuple[List[Node], Dict[str, Any], Node]]:
    """Enumerate abstract executions from ``start`` (default entry): yields
    (path, final env, terminal node) for each terminal (exit / raise_exit / return / raise).
    Branches whose test is UNKNOWN are followed both ways.  ``follow_exc(node, env)`` may
    return a label to take an exceptional edge at a node (for rules that model raising)."""
    work: List[Tuple[Node, List[Node], Dict[str, Any], int]] = [(start or cfg.entry, [], dict(env), 0)]
    produced = 0
    while work:
        node, path, e, steps = work.pop()
        if steps > 400:
            raise AnalysisError(f"{cfg.unit.short}: abstract walk does not terminate")
        path = path + [node]
        if on_node is not None:
            on_node(node, e)
        if node.kind in ("exit", "raise_exit"):
            produced += 1
            if produced > limit:
                raise AnalysisError(f"{cfg.unit.short}: abstract walk exceeds {limit} executions")
            yield path, e, node
            continue
        if node.kind == "store" and not node.info.get("aug"):
            value = node.info.get("value")
            if value is not None and not node.info.get("nested_def"):
                v = ev.eval(value, e) if not isinstance(value, (ast.FunctionDef, ast.AsyncFunctionDef)) else UNKNOWN
                for t in node.info.get("targets", []):
                    if isinstance(t, ast.Name):
                        e = dict(e)
                        e[t.id] = v
                    elif isinstance(t, ast.Tuple) and isinstance(v, tuple) and len(v) == len(t.elts):
                        e = dict(e)
                        for sub, sv in zip(t.elts, v):
                            if isinstance(sub, ast.Name):
                                e[sub.id] = sv
                    elif isinstance(t, ast.Tuple):
                        e = dict(e)
                        for sub in t.elts:
                            if isinstance(sub, ast.Name):
                                e[sub.id] = UNKNOWN
            elif value is None:
                e = dict(e)
                for t in node.info.get("targets", []):
                    for sub in ast.walk(t):
                        if isinstance(sub, ast.Name):
                            e[sub.id] = UNKNOWN
        if node.kind == "branch":
            t = ev.truth(ev.eval(node.ast, e)) if "const" not in node.info else node.info["const"]
            labels = ("t", "f") if t is UNKNOWN else (("t",) if t else ("f",))
            for lab, s in node.succ:
                if lab in labels:
                    work.append((s, path, dict(e), steps + 1))
            continue
        if follow_exc is not None:
            lab = follow_exc(node, e)
            if lab:
                for l2, s in node.succ:
                    if l2 == lab:
                        work.append((s, path, dict(e), steps + 1))
                continue
        nxt = [(lab, s) for lab, s in node.succ if lab in ("n", "stop")]
        if node.kind == "raise":
            nxt = [(lab, s) for lab, s in node.succ if lab == "e"]
        if node.kind == "dispatch":
            continue  # handled by follow_exc-aware callers
        if node.kind == "reraise":
            nxt = [(lab, s) for lab, s in node.succ if lab == "p"]
        for lab, s in nxt:
            work.append((s, path, dict(e), steps + 1))
