"""
Finite-domain abstract evaluation.

An abstract value is drawn from a small closed domain chosen by the rule (the classes
{NONE, NEG, ZERO, POS, CALLABLE} of a ``maxsize`` argument, an order outcome {LT, EQ, GT},
symbolic exception identities, the outcome class of a callback ...).  Expressions are
evaluated by *table lookup* through hooks supplied by the rule (``ops``); whatever the
tables do not cover is UNKNOWN and a branch on UNKNOWN is followed both ways.  The
machine walks the CFG of the analysed function; no code of the repository is executed.

Hooks on ``ops`` (all optional; return UNKNOWN when not applicable):
  compare(op, left, right, env)          truth(value, env)
  call(func_text, args, kwargs, node, env)   attr(value, name, node, env)
  binop(op, left, right, env)            neg(value)
  raises(cfg_node, env) -> exception symbol or None      (make a node raise)
  matches(handler_type_ast, exc_symbol, env) -> bool | UNKNOWN
  iter(cfg_node, env) / next(cfg_node, env) -> value | STOP | UNKNOWN
  store(target_ast, value, env)          (attribute / subscript stores)
"""
from __future__ import annotations

import ast
from typing import Any, Callable, Dict, Iterator, List, Optional, Tuple

from .cfg import CFG, Node
from .loader import AnalysisError, norm


class _Unknown:
    def __repr__(self) -> str:
        return "UNKNOWN"


class _Stop:
    def __repr__(self) -> str:
        return "STOP"


UNKNOWN = _Unknown()
STOP = _Stop()


def _hook(ops: Any, name: str):
    return getattr(ops, name, None)


class AbsEval:
    def __init__(self, ops: Any):
        self.ops = ops

    def eval(self, e: Optional[ast.AST], env: Dict[str, Any]) -> Any:
        if e is None:
            return None
        if isinstance(e, ast.Constant):
            return e.value
        if isinstance(e, ast.Name):
            if e.id in env:
                return env[e.id]
            hook = _hook(self.ops, "name")
            return hook(e.id, env) if hook else UNKNOWN
        if isinstance(e, ast.Await):
            hook = _hook(self.ops, "awaited")
            v = self.eval(e.value, env)
            if isinstance(v, tuple) and len(v) == 2 and v[0] == "@coro":
                return v[1]  # awaiting a library coroutine that was evaluated at its call: its return value
            return hook(v, env) if hook else v
        if isinstance(e, ast.NamedExpr):
            v = self.eval(e.value, env)
            if isinstance(e.target, ast.Name):
                env[e.target.id] = v
            return v
        if isinstance(e, ast.UnaryOp) and isinstance(e.op, ast.Not):
            t = self.truth(self.eval(e.operand, env), env)
            return UNKNOWN if t is UNKNOWN else (not t)
        if isinstance(e, ast.UnaryOp) and isinstance(e.op, ast.USub):
            v = self.eval(e.operand, env)
            hook = _hook(self.ops, "neg")
            if hook:
                return hook(v)
            return -v if isinstance(v, (int, float)) and not isinstance(v, bool) else UNKNOWN
        if isinstance(e, ast.BoolOp):
            result: Any = None
            for v in e.values:
                val = self.eval(v, env)
                t = self.truth(val, env)
                if t is UNKNOWN:
                    return UNKNOWN
                result = val
                if isinstance(e.op, ast.And) and not t:
                    return val
                if isinstance(e.op, ast.Or) and t:
                    return val
            return result
        if isinstance(e, ast.IfExp):
            t = self.truth(self.eval(e.test, env), env)
            if t is UNKNOWN:
                return UNKNOWN
            return self.eval(e.body if t else e.orelse, env)
        if isinstance(e, ast.Compare):
            left = self.eval(e.left, env)
            for op, comp in zip(e.ops, e.comparators):
                right = self.eval(comp, env)
                r = self.compare(type(op).__name__, left, right, env)
                if r is UNKNOWN:
                    return UNKNOWN
                if not r:
                    return False
                left = right
            return True
        if isinstance(e, ast.BinOp):
            hook = _hook(self.ops, "binop")
            if hook:
                return hook(type(e.op).__name__, self.eval(e.left, env), self.eval(e.right, env), env)
            return UNKNOWN
        if isinstance(e, ast.Call):
            cached = env.get("@callvals", {})
            if id(e) in cached:
                return cached[id(e)]
            hook = _hook(self.ops, "call")
            if hook:
                args = [self.eval(a, env) for a in e.args if not isinstance(a, ast.Starred)]
                kwargs = {k.arg: self.eval(k.value, env) for k in e.keywords if k.arg}
                return hook(norm(e.func), args, kwargs, e, env)
            return UNKNOWN
        if isinstance(e, ast.Attribute):
            hook = _hook(self.ops, "attr")
            if hook:
                return hook(self.eval(e.value, env), e.attr, e, env)
            return UNKNOWN
        if isinstance(e, ast.Tuple):
            return tuple(self.eval(x, env) for x in e.elts)
        hook = _hook(self.ops, "other")
        if hook:
            return hook(e, env, self)
        return UNKNOWN

    def truth(self, v: Any, env: Dict[str, Any]) -> Any:
        if v is UNKNOWN:
            return UNKNOWN
        hook = _hook(self.ops, "truth")
        if hook:
            r = hook(v, env)
            if r is not UNKNOWN:
                return r
        if isinstance(v, (bool, int)) or v is None:
            return bool(v)
        return UNKNOWN

    def compare(self, op: str, left: Any, right: Any, env: Dict[str, Any]) -> Any:
        if left is UNKNOWN or right is UNKNOWN:
            return UNKNOWN
        hook = _hook(self.ops, "compare")
        if hook:
            r = hook(op, left, right, env)
            if r is not UNKNOWN:
                return r
        if op == "Is":
            return left is right or (isinstance(left, (str, tuple)) and left == right)
        if op == "IsNot":
            return not (left is right or (isinstance(left, (str, tuple)) and left == right))
        return UNKNOWN


class Outcome:
    __slots__ = ("path", "env", "terminal")

    def __init__(self, path: List[Node], env: Dict[str, Any], terminal: Node):
        self.path = path
        self.env = env
        self.terminal = terminal

    @property
    def raised(self) -> Any:
        return self.env.get("@exc") if self.terminal.kind == "raise_exit" else None

    @property
    def returned(self) -> Any:
        return self.env.get("@return") if self.terminal.kind == "exit" else None


class Machine:
    def __init__(self, cfg: CFG, ops: Any, max_steps: int = 600, max_outcomes: int = 3000,
                 resolver: Optional[Callable[[ast.Call, Dict[str, Any]], Any]] = None, depth: int = 0,
                 budget: Optional[List[int]] = None):
        """``resolver(call_ast, env)`` may return ``(callee_cfg, bound_parameters)`` for a call
        of a synchronous library helper; the helper is then evaluated by a nested machine
        (shared '@' state), so extracting code into a private helper does not blind a rule."""
        self.cfg = cfg
        self.ops = ops
        self.resolver = resolver
        self.depth = depth
        self.ev = AbsEval(ops)
        if getattr(ops, "ev", None) is None:
            try:
                ops.ev = self.ev  # (operations that have to evaluate a sub-expression themselves: ``f(*triple)``)
            except AttributeError:
                pass
        self.max_steps = max_steps
        self.max_outcomes = max_outcomes
        self.forked = False  # did any step have more than one successor (an uninterpreted condition / outcome)?
        # all steps of this evaluation, the nested machines for helper calls included: forks multiply paths, and each path
        # has its own step limit - the total work is bounded here (an evaluation that needs more decides nothing)
        self.budget = budget if budget is not None else [40000]

    def run(self, env: Dict[str, Any], start: Optional[Node] = None,
            stop: Optional[Callable[[Node], bool]] = None,
            halt: Optional[Callable[[Node, Dict[str, Any]], bool]] = None) -> List[Outcome]:
        """``halt(node, env)``: end this execution here (observing an endless generator for a while)"""
        out: List[Outcome] = []
        work: List[Tuple[Node, List[Node], Dict[str, Any], int]] = [(start or self.cfg.entry, [], dict(env), 0)]
        while work:
            node, path, e, steps = work.pop()
            self.budget[0] -= 1
            if self.budget[0] < 0:
                self.forked = True
                raise AnalysisError(f"{self.cfg.unit.short}: abstract evaluation exceeds its total work budget")
            if steps > self.max_steps:
                raise AnalysisError(f"{self.cfg.unit.short}: abstract evaluation does not terminate")
            path = path + [node]
            if node.kind in ("exit", "raise_exit") or (stop is not None and stop(node) and len(path) > 1) \
                    or (halt is not None and halt(node, e)):
                out.append(Outcome(path, e, node))
                if len(out) > self.max_outcomes:
                    raise AnalysisError(f"{self.cfg.unit.short}: abstract evaluation exceeds {self.max_outcomes} executions")
                continue
            successors = self.step(node, e)
            if len(successors) > 1:
                self.forked = True
            for nxt, e2 in successors:
                work.append((nxt, path, e2, steps + 1))
        return out

    # ------------------------------------------------------------------ one step
    def step(self, node: Node, e: Dict[str, Any]) -> List[Tuple[Node, Dict[str, Any]]]:
        k = node.kind
        raises = _hook(self.ops, "raises")
        if raises is not None and k in ("await", "call", "attr", "sub", "op", "pull", "yield", "enter", "exit_cm", "snext"):
            sym = raises(node, e)
            if sym is not None:
                e = dict(e)
                e["@exc"] = sym
                return [(s, e) for lab, s in node.succ if lab == "e"]
        if k == "store":
            e = dict(e)
            self._store(node, e)
            return self._follow(node, e, ("n",))
        if k == "branch":
            t = node.info["const"] if "const" in node.info else self.ev.truth(self.ev.eval(node.ast, e), e)
            labels = ("t", "f") if t is UNKNOWN else (("t",) if t else ("f",))
            return [(s, dict(e)) for lab, s in node.succ if lab in labels]
        if k == "raise":
            e = dict(e)
            stmt = node.ast
            if isinstance(stmt, ast.Raise) and stmt.exc is not None:
                e["@exc"] = self.ev.eval(stmt.exc, e)
                if stmt.cause is not None:
                    hook = _hook(self.ops, "set_cause")
                    if hook:
                        hook(e["@exc"], self.ev.eval(stmt.cause, e), e)
            elif isinstance(stmt, ast.Assert):
                e["@exc"] = ("new", "AssertionError")
            return self._follow(node, e, ("e",))
        if k == "dispatch":
            return self._dispatch(node, e)
        if k == "handler":
            e = dict(e)
            name = node.info.get("name")
            if name:
                e[name] = e.get("@exc", UNKNOWN)
            e["@handling"] = e.get("@exc", UNKNOWN)
            return self._follow(node, e, ("n",))
        if k == "reraise":
            return self._follow(node, e, ("p",))
        if k == "return":
            e = dict(e)
            e["@return"] = self.ev.eval(node.info.get("value"), e)
            return self._follow(node, e, ("n",))
        if k in ("siter", "aiter"):
            hook = _hook(self.ops, "iter")
            if hook:
                e = dict(e)
                hook(node, e)
            return self._follow(node, e, ("n",))
        if k in ("snext", "pull"):
            hook = _hook(self.ops, "next")
            v = hook(node, e) if hook else UNKNOWN
            if v is STOP:
                return self._follow(node, e, ("stop",))
            if v is UNKNOWN:
                e1 = dict(e)
                e1["@next"] = UNKNOWN
                return self._follow(node, e1, ("n",)) + self._follow(node, dict(e), ("stop",))
            e = dict(e)
            e["@next"] = v
            return self._follow(node, e, ("n",))
        if k == "call" and self.resolver is not None and self.depth < 3:
            target = self.resolver(node.ast, e)
            if target is not None:
                callee_cfg, bound = target
                sub_env = {key: val for key, val in e.items() if key.startswith("@")}
                sub_env.pop("@return", None)
                sub_env.update(bound)
                sub_env["@unit"] = callee_cfg.unit  # (which function's body is being evaluated: closures are looked up in it)
                sub = Machine(callee_cfg, self.ops, self.max_steps, self.max_outcomes, self.resolver, self.depth + 1, self.budget)
                out: List[Tuple[Node, Dict[str, Any]]] = []
                try:
                    sub_outcomes = sub.run(sub_env)
                except AnalysisError:
                    # the helper cannot be evaluated over this domain (e.g. a loop over values the
                    # domain does not model): treat it as an opaque call
                    sub_outcomes = None
                if sub_outcomes is None:
                    hook = _hook(self.ops, "visit")
                    if hook:
                        e = dict(e)
                        hook(node, e, self.ev)
                    return self._follow(node, e, ("n", "stop"))
                for oc in sub_outcomes:
                    e2 = dict(e)
                    for key, val in oc.env.items():
                        if key.startswith("@") and key not in ("@return", "@callvals", "@handling", "@unit"):
                            e2[key] = val
                    if oc.terminal.kind == "raise_exit":
                        out.extend((s, e2) for lab, s in node.succ if lab == "e")
                    else:
                        vals = dict(e2.get("@callvals", {}))
                        ret = oc.env.get("@return")
                        vals[id(node.ast)] = ("@coro", ret) if callee_cfg.unit.kind == "coroutine" else ret
                        e2["@callvals"] = vals
                        out.extend((s, e2) for lab, s in node.succ if lab in ("n",))
                return out
        if k in ("await", "call", "yield", "collect", "nop", "del", "exit_cm"):
            hook = _hook(self.ops, "visit")
            if hook:
                e = dict(e)
                hook(node, e, self.ev)
        return self._follow(node, e, ("n", "stop"))

    def _follow(self, node: Node, e: Dict[str, Any], labels: Tuple[str, ...]) -> List[Tuple[Node, Dict[str, Any]]]:
        return [(s, e) for lab, s in node.succ if lab in labels]

    def _dispatch(self, node: Node, e: Dict[str, Any]) -> List[Tuple[Node, Dict[str, Any]]]:
        matches = _hook(self.ops, "matches")
        out: List[Tuple[Node, Dict[str, Any]]] = []
        for lab, h in node.succ:
            if lab != "h":
                continue
            m = matches(h.info.get("type"), e.get("@exc", UNKNOWN), e) if matches else UNKNOWN
            if m is True:
                out.append((h, e))
                return out
            if m is UNKNOWN:
                out.append((h, dict(e)))
        out.extend(self._follow(node, e, ("e",)))
        return out

    def _store(self, node: Node, e: Dict[str, Any]) -> None:
        info = node.info
        if info.get("nested_def"):
            return
        if info.get("aug"):
            hook = _hook(self.ops, "augstore")
            if hook:
                hook(node, e, self.ev)
            else:
                for t in info.get("targets", []):
                    if isinstance(t, ast.Name):
                        e[t.id] = UNKNOWN
            return
        if "source" in info:
            v = e.get("@next", UNKNOWN)
        elif "source_enter" in info:
            hook = _hook(self.ops, "entered")
            v = hook(info["source_enter"], e, self.ev) if hook else UNKNOWN
        else:
            v = self.ev.eval(info.get("value"), e)
        for t in info.get("targets", []):
            self._assign(t, v, e)

    def _assign(self, t: ast.AST, v: Any, e: Dict[str, Any]) -> None:
        if isinstance(t, ast.Name):
            e[t.id] = v
        elif isinstance(t, (ast.Tuple, ast.List)):
            if isinstance(v, tuple) and len(v) == len(t.elts):
                for sub, sv in zip(t.elts, v):
                    self._assign(sub, sv, e)
            else:
                for sub in t.elts:
                    self._assign(sub, UNKNOWN, e)
        else:
            hook = _hook(self.ops, "store")
            if hook:
                hook(t, v, e, self.ev)
